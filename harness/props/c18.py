"""C18 - The index lists every entry exactly once, under its key, in collation order.

streams (driver request = "C18 <stream> <line>")
  idxparse : token lists of an \\index argument (also malformed: stray @ ! | ", specials inside the format):
             real `index.invoke` on the real tokens (observed through the token lists it hands to
             `tex.expandTokens`) vs Model.parseEntry.                                   [model only]
  idxspec  : entries of the Spec grammar (levels, sort@display, quoted specials, |format); the driver renders
             them, runs Model.parseEntry and Spec.denote; the implementation parses the rendered string.
  idx      : a list of entries (1-3 levels, each level = sort key / text / source as measured on the live
             expansion, collation keys from the live collator, initials from the live unidecode) x columns:
             real IndexEntry objects -> sorted() -> real printindex.digest -> .groups, vs Model.buildIndex/groups
             and the Spec oracle (one line per path, pages in document order, siblings by collation key,
             groups by initial, columns a partition in order).
  doc18    : the same entries scattered over a generated document with \\printindex, parsed by the real interpreter.
  html18   : doc18 documents rendered with the real HTML5 renderer; the generated index is read back from the HTML
             (<li> nesting, page references, headings, columns) and compared with Model.renderIndex/htmlLines (the
             template walk) and with the index tree of the same document.
  idxcols  : IndexUtils.splitColumns on weight lists x cols (0..6) vs Model.splitColumns.
  idx-asis : only used to exhibit D13 on request (model of the pinned code before the repair).
"""
import logging, random, json, os
import extract
from framework import Case, Violation, VERIF

ID = 'C18'
LEAN_MODULE = 'PlasVerif.Properties.C18'
LEVEL_TEXT = ('Lean 4 theorems over a line-by-line model of index.invoke (the ! @ | " parser), IndexEntry.__lt__ (Python list/tuple '
              'comparison), sorted(), IndexUtils.digest (prefix-merge), groups and splitColumns, for every list of entries, every collator '
              'and every column count: parse_entry_paths, entry_order_is_strict_total_on_paths, sort_perm_sorted_stable, '
              'level_order_refines_collation, merge_every_entry_once_under_path, lines_strictly_increasing, one_line_per_path, '
              'siblings_in_collation_order, pages_per_path_in_document_order, one_page_reference_per_occurrence, pages_increasing, '
              'groups_partition_by_initial, heading_cases, columns_partition_in_order, index_groups_and_columns, '
              'generated_index_lists_every_line, generated_index_is_the_index_tree (walk of the HTML5 index template); kernel-checked witnesses '
              'asIs_counterexample (D13, repaired), asIs_groups_counterexample (duplicate headings, repaired) and format_special_counterexample (known finding). The collator (pyuca or the str.lower '
              'fallback), unidecode and the expansion of key tokens into nodes are parameters of the model supplied from the live '
              'installation; the model is tied to the code by differential execution at component level (real index.invoke, IndexEntry, '
              'printindex.digest/groups/splitColumns objects) and at document level (\\printindex documents, also rendered to HTML5 and read back).')
LEVEL_NOTE = ('Trusted: Lean kernel (axioms propext, Classical.choice, Quot.sound only), the correspondence harness and its generators, '
              'CPython. Parameters, not verified: the collation key function (pyuca / str.lower), unidecode, tex.expandTokens/textContent/source '
              'of key tokens (node equality is taken as equality of (textContent, source)); the DOM tree is modelled as its preorder list of '
              'Index nodes with full key paths.')
TECHNIQUE = 'Lean 4 proof (fold invariants, strict-total-order lifting through Python list comparison, stable insertion sort) + differential correspondence'
TRUSTED = ['collator (pyuca.Collator / str.lower fallback) and the unidecode *library* are parameters: their values on the generated keys are sent to the model (the name `unidecode` inside Index.py is code under test); the heading oracle additionally uses unicodedata NFKD base letters, independent of unidecode',
           'Jinja2 and the HTML5 renderer machinery: the index template walk is modelled (renderIndex/htmlLines) and tied by the html18 stream; key markup/mathematics is compared as an opaque marker',
           'expansion of key tokens (tex.expandTokens, textContent, source) is measured on the live code and sent to the model only for keys with macros, quoting or mark-up; a plain-text key (also one typed with combining characters) denotes its own characters, predicted from the property text, so the input path (tokenizer, expansion) is under test for those',
           'sorted() is modelled as a stable insertion sort (equal to any stable sort because the comparison is proved a strict total order on keys)']
ASSUMPTIONS = ['key nodes are equal (==) exactly when their (textContent, source) are equal - holds for the generated keys, checked by correspondence',
               'index-columns >= 1 (0 raises ZeroDivisionError in the code and in the model)',
               'unquoted ! @ | inside the |format part (e.g. |see{a!b}) are outside the property grammar: the code treats them as separators (see report)']
RULE = ('entry lists drawn from a pool of mixed-case / accented (precomposed and combining-character spellings) / numeric / symbol-initial keys, look-alike families (same sort key with displays that are prefixes of one another, NFC/NFD twins) (1-3 levels, sort@display, |see/|textbf, quoted '
        'specials) with forced repeats and case variants; non-trivial = the index has at least 2 lines and at least one merge (a line with >=2 pages) '
        'or a sub-level, resp. a parsed entry with at least one of ! @ | "; distinct = distinct driver request line')
EXHAUSTIVE = {}
CASE_TIMEOUT = 30

logging.disable(logging.CRITICAL)


# ---------------------------------------------------------------- translator

def gen_index_tables():
    from plasTeX import encoding, TeXDocument
    letters = encoding.stringletters()
    if not isinstance(letters, str) or len(letters) > 4000:
        raise ValueError('stringletters() = %r' % (letters,))
    # titles: probe IndexUtils.groups on mock items
    doc = TeXDocument()
    pi = doc.createElement('printindex')
    doc.config['document']['index-columns'] = 1
    for sk in ['1', '_']:
        n = pi.Index()
        n.sortkey = sk
        pi.append(n)
    gs = pi.groups
    sym, und = gs[0].title, gs[1].title
    if not (isinstance(sym, str) and isinstance(und, str) and 0 < len(sym) < 80 and 0 < len(und) < 80):
        raise ValueError('group titles %r %r' % (sym, und))
    src = (extract.HEADER % ('plasTeX/encoding.py (stringletters), plasTeX/Base/LaTeX/Index.py (group titles)', 'probed') +
           'namespace PlasVerif.Generated.Index\n'
           '/-! `encoding.stringletters()` as code points; the two literal group titles of `IndexUtils.groups` -/\n'
           'def stringletters : List Nat := %s\n'
           'def titleSymbols : List Nat := %s\n'
           'def titleUnderscore : List Nat := %s\n'
           'end PlasVerif.Generated.Index\n' % (extract.lean_nat_list(map(ord, letters)), extract.lean_nat_list(map(ord, sym)),
                                               extract.lean_nat_list(map(ord, und))))
    return 'PlasVerif/Generated/Index.lean', src, 'probed'


GENERATED = [gen_index_tables]

# ---------------------------------------------------------------- live parameters (collator, unidecode, expansion)

_env = {}


def _mod():
    if 'mod' not in _env:
        from plasTeX.Base.LaTeX import Index
        _env['mod'] = Index
    return _env['mod']


def fresh(cols=2):
    from plasTeX.TeX import TeX
    from plasTeX import TeXDocument
    doc = TeXDocument()
    doc.config['document']['index-columns'] = cols
    return doc, TeX(doc)


def sw(s):
    """string -> protocol word"""
    return 's' + '.'.join(str(ord(c)) for c in s)


def kw(k):
    """collation key (str for the fallback, tuple of ints for pyuca) -> protocol word"""
    if isinstance(k, str):
        return sw(k)
    return 's' + '.'.join(str(int(x)) for x in k)


def dots(s):
    return '.'.join(str(ord(c)) for c in s)


def _translit():
    """the transliteration *library* itself (the parameter of the model), not the name `unidecode` inside
    plasTeX/Base/LaTeX/Index.py: a wrapper or fallback defined there is code under test"""
    if 'ud' not in _env:
        try:
            import unidecode as U
            _env['ud'] = U.unidecode
        except ImportError:
            _env['ud'] = _mod().unidecode
    return _env['ud']


def ini_word(sk):
    try:
        return sw(_translit()(sk[0]).upper())
    except IndexError:
        return 'x'


def base_letter(sk):
    """the initial letter the property speaks about, independent of unidecode: the base character of the
    canonical decomposition of the first character when that is an ASCII letter (É -> E, ñ -> N), else None"""
    import unicodedata
    if not sk:
        return None
    d = unicodedata.normalize('NFKD', sk[0])
    b = d[:1].upper()
    if len(b) == 1 and 'A' <= b <= 'Z' and all(unicodedata.combining(c) for c in d[1:]):
        return b
    return None


_measured = {}


PLAIN_FORBIDDEN = set('\\{}$"~^_#&%|!<>`\'\n\t')


def predicted(level):
    """what a *plain-text* level `text` or `sort@text` names, from the property text alone: the sort key and the key are
    the very characters typed (no macro, no quoting, no mark-up, single inner blanks).  None when the level is not plain
    (then the expansion is a parameter measured on the live code).  This keeps the oracle independent of anything the
    input path (tokenizer, expansion) may do to the characters, e.g. rewriting combining accents."""
    if not level or any(c in PLAIN_FORBIDDEN for c in level) or level != level.strip() or '  ' in level:
        return None
    parts = level.split('@')
    if len(parts) > 2 or any(q != q.strip() or not q for q in parts):
        return None
    sk, disp = (parts[0], parts[-1])
    return sk, disp, disp


def measure(level):
    """one level `sort@display`: (sortkey string, key textContent, key source, key tokens); strings are `predicted` for
    plain-text levels and the live expansion otherwise; the tokens are always the live ones"""
    if level not in _measured:
        _measure_live(level)
        pr = predicted(level)
        if pr is not None:
            _measured[level] = pr + (_measured[level][3],)
    return _measured[level]


def _measure_live(level):
    if True:
        # robust against a changed parser: never raise here, a wrong expansion shows up as a disagreement
        try:
            calls = []
            doc, tex = fresh()
            orig = tex.expandTokens
            tex.expandTokens = lambda toks, *a, **k: (calls.append(list(toks)), orig(toks, *a, **k))[1]
            tex.input('\\index{%s}' % level)
            tex.parse()
            e = doc.userdata['index'][0]
            toks = calls[len(e.sortkey)] if len(calls) > len(e.sortkey) else []
            _measured[level] = (e.sortkey[0], e.key[0].textContent, e.key[0].source, toks)
        except Exception:
            _measured[level] = (level, level, level, tokenize(level))
    return _measured[level]


def level_words(level):
    M = _mod()
    sk, txt, src, _ = measure(level)
    return ['L', sw(sk), sw(txt), sw(src), kw(M.collator(sk)), kw(M.collator(txt)), ini_word(sk)]


# ---------------------------------------------------------------- generators

POOL = ['apple', 'Apple', 'APPLE', 'apple pie', 'banana', 'Banana', 'eclair', 'Eclair', '\\\'eclair', '\\\'Eclair', 'éclair', 'École',
        'zebra', 'Zebra', 'zeta', '1st', '42', '4', '007', '-dash', '+plus', '.dot', '*star', '\\_under', '\\_Under', 'Über', 'uber', 'Uber',
        'ñandú', 'nandu', 'alpha', 'Alpha', 'alpha@$\\alpha$', 'alpha@\\textbf{alpha}', 'Alpha@alpha', 'beta@\\emph{Beta}', 'b', 'B', 'a', 'A',
        'a"!b', 'a"@b', 'x"|y', 'q""uote', 'm', 'M', 'mu@$\\mu$', 'naïve', 'Naive', 'naive', 'z', 'Z', 'ä', 'Ä', 'ae', 'ß', 'ss', 'Ωmega',
        'item', 'Item', 'sub', 'Sub', 'subsub', 'sort', '10', '2', '(paren)', '=eq', '\\#hash', 'ça', 'ca', 'Ca', 'cb',
        # same sort key, displays that are prefixes of one another (token-wise and node-wise)
        'gnu', 'gnu@GNU', 'gnu@GNUs', 'gnu@GN', 'make@Make', 'make@Makefile', 'alpha@alphabet', 'alpha@\\textbf{alpha}s',
        'mu@$\\mu$m', 'apple@apple pie',
        # accented keys typed with combining characters (NFD): different keys from their precomposed look-alikes
        'e\u0301clair', 'E\u0301cole', 'nai\u0308ve', 'u\u0308ber', 'n\u0303andu\u0301', 'ezra', 'fig', 'nail']
FAMILIES = [['apple', 'Apple', 'APPLE'], ['a', 'A', 'ä', 'Ä'], ['eclair', 'Eclair', '\\\'eclair', 'éclair'],
            ['alpha', 'Alpha', 'alpha@$\\alpha$', 'Alpha@alpha', 'alpha@\\textbf{alpha}'], ['sub', 'Sub', 'subsub', 'ss', 'ß'],
            ['gnu', 'gnu@GNU', 'gnu@GNUs', 'gnu@GN'], ['make@Make', 'make@Makefile', 'alpha', 'alpha@alphabet'],
            ['alpha@\\textbf{alpha}', 'alpha@\\textbf{alpha}s', 'mu@$\\mu$', 'mu@$\\mu$m'],
            ['éclair', 'e\u0301clair', 'eclair', 'ezra', 'fig'], ['naïve', 'nai\u0308ve', 'nail', 'naive'],
            ['Über', 'u\u0308ber', 'uber', 'École', 'E\u0301cole']]


def variants(rng, level):
    """derived look-alikes of a level that name *different* keys: a display extended by one letter under the same sort
    key (prefix sibling), and the canonically decomposed (combining characters) spelling of an accented plain key"""
    import unicodedata
    out = []
    if predicted(level) is not None or '@' in level:
        out.append(level + 's' if '@' in level else '%s@%ss' % (level, level))
    nfd = unicodedata.normalize('NFD', level)
    if nfd != level and predicted(level) is not None:
        out.append(nfd)
    return out
FORMATS = ['', '', '', '', '', '|see{other}', '|seealso{apple}', '|textbf', '|emph', '|textit', '|see{a b}', '|(', '|)', '|(textbf']


def gen_entries(rng, n):
    """n entries: (levels list, format) with forced repeats / case variants / shared prefixes"""
    k = rng.randint(2, max(2, min(len(POOL), 3 + n // 2)))
    if rng.random() < 0.4:
        base = rng.choice(FAMILIES)
        pool = base + [rng.choice(POOL) for _ in range(max(0, k - len(base)))]
    else:
        pool = [rng.choice(POOL) for _ in range(k)]
    for lv in list(pool):
        if rng.random() < 0.25:
            pool.extend(variants(rng, lv))
    es = []
    for _ in range(n):
        r = rng.random()
        if es and r < 0.25:
            lv = list(rng.choice(es)[0])                      # exact repeat of an earlier path
            if rng.random() < 0.3 and len(lv) < 3:
                lv.append(rng.choice(pool))                   # … or a sub-entry of it
            elif rng.random() < 0.2 and len(lv) > 1:
                lv.pop()
        else:
            depth = 1 if r < 0.6 else (2 if r < 0.9 else 3)
            lv = [rng.choice(pool) for _ in range(depth)]
        es.append((lv, rng.choice(FORMATS)))
    return es


def entries_line(es, cols):
    ws = [str(cols)]
    for lv, _ in es:
        ws.append('E')
        for l in lv:
            ws.extend(level_words(l))
    return ' '.join(ws)


FILL = ['Some text.', 'More words here', '\\emph{emphasised}', 'A longer sentence follows, with commas, and a full stop.', 'x', '']


def gen_doc_body(rng, es):
    """scatter the \\index commands (in order) over sections, paragraphs, lists and arguments"""
    out = []
    items = ['\\index{%s%s}' % ('!'.join(lv), f) for lv, f in es]
    i = 0
    in_list = False
    while i < len(items):
        r = rng.random()
        if r < 0.12 and not in_list:
            out.append('\\section{Part %d}' % len(out))
        elif r < 0.2 and not in_list:
            out.append('\\begin{itemize}\\item first')
            in_list = True
        elif r < 0.3 and in_list:
            out.append('\\end{itemize}')
            in_list = False
        elif r < 0.4:
            out.append('\n\n')
        elif r < 0.5:
            out.append('\\emph{word%s}' % items[i]); i += 1
        elif r < 0.55 and in_list:
            out.append('\\item next ')
        else:
            out.append(rng.choice(FILL) + items[i] + rng.choice(['', ' ', ' and '])); i += 1
    if in_list:
        out.append('\\end{itemize}')
    return ' '.join(out) if rng.random() < 0.5 else ''.join(out)


UNITS_PLAIN = list('abcdeXYZ019') + ['é', 'Ü', '-', '+', '.', ',', ':', '(', ')', '=', '*', '/']
UNITS_COMP = ['\\textbf{%s}', '{%s}', '$%s$', '\\emph{%s}']
SPECIALS = ['!', '@', '|', '"']


def gen_text_units(rng, depth=1):
    """list of (string, quoted?) units that tokenize independently of their neighbours"""
    us = []
    for _ in range(rng.randint(0, 4) if depth else rng.randint(1, 2)):
        r = rng.random()
        if r < 0.12 and depth:
            inner = ''.join(rng.choice(UNITS_PLAIN[:11]) for _ in range(rng.randint(1, 2)))
            us.append((rng.choice(UNITS_COMP) % inner, False))
        elif r < 0.3:
            us.append((rng.choice(SPECIALS), True))
        elif r < 0.34:
            us.append((rng.choice(UNITS_PLAIN), True))
        elif r < 0.4 and us and us[-1][0].isalpha() and not us[-1][1]:
            us.append((' ' + rng.choice('abXY'), False))
        else:
            us.append((rng.choice(UNITS_PLAIN), False))
    return us


def canon_tok(t, table):
    cc = t.catcode
    s = str(t)
    if cc in (10, 11, 12) and len(s) == 1:
        return ('l' if cc == 11 else 'c') + str(ord(s))
    name = '%s:%s' % (cc, s)
    if name not in table:
        table.append(name)
    return 'o%d' % table.index(name)


_tokcache = {}


def tokenize(s):
    if s not in _tokcache:
        doc, tex = fresh()
        tex.input(s)
        _tokcache[s] = list(tex.itertokens())
    return _tokcache[s]


def units_words(us, table):
    ws = []
    for s, q in us:
        toks = tokenize('a' + s)[1:] if s.startswith(' ') else tokenize(s)
        if q:
            assert len(toks) == 1
            ws.append('q' + canon_tok(toks[0], table))
        else:
            ws.extend('p' + canon_tok(t, table) for t in toks)
    return ws


def units_str(us):
    return ''.join(('"' + s) if q else s for s, q in us)


def gen_spec_entry(rng):
    table = []
    ws, parts = [], []
    nlev = rng.choice([1, 1, 2, 2, 3])
    for i in range(nlev):
        if i:
            ws.append('!'); parts.append('!')
        if rng.random() < 0.35:
            s = gen_text_units(rng)
            ws.extend(units_words(s, table)); ws.append('@'); parts.append(units_str(s) + '@')
        d = gen_text_units(rng)
        ws.extend(units_words(d, table)); parts.append(units_str(d))
    if rng.random() < 0.35:
        f = [(c, False) for c in rng.choice(['see', 'seealso', 'textbf', 'emph', 'se', 'seee', ''])]
        if rng.random() < 0.5:
            f += [('{', False)] + [(rng.choice('abc'), False)] + [('}', False)]
        f += [u for u in gen_text_units(rng, 0) if rng.random() < 0.3]
        if f:
            ws.append('|'); ws.extend(units_words(f, table)); parts.append('|' + units_str(f))
    return ' '.join(ws), ''.join(parts), table


def gen_soup(rng):
    """malformed: stray separators anywhere, also inside the format and at the ends"""
    n = rng.randint(0, 10)
    s, depth = [], 0
    for _ in range(n):
        r = rng.random()
        if r < 0.45:
            s.append(rng.choice(SPECIALS))
        elif r < 0.5:
            s.append('{'); depth += 1
        elif r < 0.55 and depth:
            s.append('}'); depth -= 1
        elif r < 0.6:
            s.append(rng.choice(['\\textbf', '\\alpha', '$x$', '\\"']))
        else:
            s.append(rng.choice(UNITS_PLAIN))
    s.append('}' * depth)
    return ''.join(s)


def generate(ctx):
    rng = ctx.rng
    q = ctx.tier == 'quick'
    n_idx, n_doc, n_spec, n_soup, n_cols = (4000, 500, 3000, 2500, 2000) if q and not os.environ.get("C18_SMALL") else (700, 110, 600, 500, 400) if q else (40000, 5000, 30000, 25000, 20000)
    for _ in range(n_spec):
        line, s, table = gen_spec_entry(rng)
        yield Case('idxspec', line, {'s': s, 'oth': table})
    for _ in range(n_soup):
        s = gen_soup(rng)
        table = []
        try:
            toks = tokenize(s)
        except Exception:
            continue
        if '\\par' in s or any(t.catcode in (5, 14) for t in toks):
            continue
        yield Case('idxparse', ' '.join(canon_tok(t, table) for t in toks), {'s': s, 'oth': table})
    for _ in range(n_idx):
        n = rng.choice([1, 2, 3, 4, 5, 6, 8, 10, 14, 20]) if rng.random() < 0.9 else rng.randint(20, 45)
        es = gen_entries(rng, n)
        cols = rng.randint(1, 4)
        yield Case('idx', entries_line(es, cols), {'es': es, 'cols': cols})
    for _ in range(n_doc):
        n = rng.choice([1, 2, 3, 4, 6, 8, 12, 16])
        es = gen_entries(rng, n)
        cols = rng.randint(1, 4)
        yield Case('doc18', entries_line(es, cols), {'es': es, 'cols': cols, 'body': gen_doc_body(rng, es)})
    for _ in range(max(20, n_doc // 3)):
        n = rng.choice([2, 3, 4, 6, 8, 12, 16])
        es = gen_entries(rng, n)
        if rng.random() < 0.5:                                 # force a third level and an accented initial
            es.append(([rng.choice(POOL), rng.choice(POOL), rng.choice(POOL)], rng.choice(FORMATS)))
            es.append(([rng.choice(['éclair', 'École', 'Über', 'ñandú', 'Ä', 'ça', 'Östersund@Oestersund'])], ''))
            rng.shuffle(es)
        cols = rng.randint(1, 4)
        yield Case('html18', entries_line(es, cols), {'es': es, 'cols': cols, 'body': gen_doc_body(rng, es)})
    for _ in range(n_cols):
        cols = rng.choice([0, 1, 1, 2, 2, 3, 3, 4, 4, 5, 6])
        k = rng.randint(0, 12)
        ws = [rng.choice([1, 1, 1, 2, 3, 5, 9]) for _ in range(k)]
        yield Case('idxcols', ' '.join([str(cols)] + [str(w) for w in ws]), None)


D13 = [(['a'], ''), (['A'], ''), (['a'], '')]
D13_SUB = [(['alpha', 'sub'], ''), (['alpha', 'Sub'], ''), (['alpha', 'sub'], '')]
D14 = [(['q'], '|('), (['r'], ''), (['q'], '|)')]


def corpus():
    cs = []
    H3 = [(['apple', 'banana', 'zebra'], ''), (['École'], ''), (['apple', 'banana', 'zebra'], '|textbf'), (['ñandú', 'sub'], '|see{other}'), (['apple', 'banana'], ''),
          (['eclair'], ''), (['zebra'], ''), (['éclair'], '')]
    cs.append(Case('html18', entries_line(H3, 2), {'es': H3, 'cols': 2, 'body': ' '.join('w\\index{%s%s}' % ('!'.join(l), f) for l, f in H3)}, 'corpus'))
    for es in (D13, D13_SUB, D14, [(['apple', 'x"|y'], '|see{other}'), (['Apple'], ''), (['apple'], '|textbf'), (['apple', 'x"|y'], '')]):
        cs.append(Case('idx', entries_line(es, 2), {'es': es, 'cols': 2}, 'corpus'))
        cs.append(Case('doc18', entries_line(es, 2), {'es': es, 'cols': 2, 'body': ' '.join('w\\index{%s%s}' % ('!'.join(l), f) for l, f in es)}, 'corpus'))
    d = os.path.join(VERIF, 'corpus', ID)
    if os.path.isdir(d):
        for f in sorted(os.listdir(d)):
            if f.endswith('.json'):
                w = json.load(open(os.path.join(d, f)))
                if 'case' in w:
                    cs.append(Case.from_json(w['case'], 'corpus'))
    return cs


def nontrivial(o):
    st = o.case.stream
    if st in ('idx', 'doc18', 'html18'):
        if not o.impl.startswith('L: '):
            return False
        lines = o.impl.split(' ## ')[0].split(' G ')[0].split()[1:]
        return len(lines) >= 2 and any(l.startswith('2/') or l.startswith('3/') or '.' in l.split('/')[3] for l in lines)
    if st in ('idxspec', 'idxparse'):
        return not o.impl.startswith('err') and any(w in o.case.line.split() for w in ('!', '@', '|', 'c33', 'c64', 'c124', 'c34')) \
            or any(w.startswith('q') for w in o.case.line.split())
    if st == 'idxcols':
        return len(o.case.line.split()) > 2 and not o.impl.startswith('err')
    return False


# ---------------------------------------------------------------- implementation side

def canon_exc(e):
    n = type(e).__name__
    return 'err:' + n if n in ('IndexError', 'ZeroDivisionError', 'AttributeError', 'KeyError') else 'err:other:' + n


def impl_parse(s, table):
    """run the real \\index on the string; observe the token lists handed to expandTokens"""
    doc, tex = fresh()
    calls = []
    orig = tex.expandTokens

    def hook(toks, *a, **k):
        calls.append(list(toks))
        return orig(toks, *a, **k)
    tex.expandTokens = hook
    tex.input('\\index{%s}' % s)
    try:
        tex.parse()
    except Exception as e:
        return canon_exc(e), None
    ents = doc.userdata.get('index', [])
    if len(ents) != 1:
        return 'entries:%d' % len(ents), None
    e = ents[0]
    arg = list(e.node.attributes['entry'])
    ns, nk = len(e.sortkey), len(e.key)
    if len(calls) not in (ns + nk, ns + nk + 1):
        return 'calls:%d:%d:%d' % (len(calls), ns, nk), None
    tb = list(table)
    cs = lambda toks: ','.join(canon_tok(t, tb) for t in toks)
    S = '|'.join(cs(c) for c in calls[:ns])
    K = '|'.join(cs(c) for c in calls[ns:ns + nk])
    if len(calls) == ns + nk:
        F = 'F-'
        if e.format is not None:
            F = 'F?'
    else:
        f = calls[-1]
        created = lambda t: not any(t is x for x in arg)
        if not f or not created(f[-1]) or str(f[-1]) != 'index-page-number':
            return 'format-without-page-number', None
        f = f[:-1]
        mac = ''
        if f and created(f[0]):
            mac = str(f[0]); f = f[1:]
        F = 'F%s/%s' % (dots(mac), cs(f))
    if tb != list(table):
        return 'unknown-token:%s' % tb[len(table):], None
    return 'P:S%s;K%s;%s;T%d' % (S, K, F, e.type), arg


def observe_index(pi, order):
    """preorder lines `depth/src/sk/pages` and the groups of a digested printindex node"""
    lines = []

    def walk(n, d):
        for c in n:
            pages = '.'.join(str(order[id(p._cr_node)]) for p in c.pages)
            lines.append('%d/%s/%s/%s' % (d, dots(c.key.source), dots(c.sortkey), pages))
            walk(c, d + 1)
    walk(pi, 1)
    tops = {id(c): i for i, c in enumerate(pi)}
    try:
        gs = []
        for g in pi.groups:
            gs.append('%s/%s/%s' % (dots(g.title), dots(g.id), '|'.join(','.join(str(tops[id(x)]) for x in col) for col in g)))
        G = ' '.join(gs)
    except Exception as e:
        G = canon_exc(e)
    return 'L: %s G %s' % (' '.join(lines), G)


def impl_idx(es, cols):
    M = _mod()
    doc, tex = fresh(cols)
    entries = []
    for lv, fmt in es:
        sks, keys = [], []
        for l in lv:
            sk, txt, src, toks = measure(l)
            sks.append(sk)
            keys.append(tex.expandTokens(list(toks)))
        node = doc.createElement('index')
        ty = M.IndexEntry.TYPE_SEE if fmt.startswith('|see{') else (M.IndexEntry.TYPE_SEEALSO if fmt.startswith('|seealso') else 0)
        entries.append(M.IndexEntry(keys, node, sks, None, ty))
    doc.userdata['index'] = entries
    order = {id(e.node): i for i, e in enumerate(entries)}
    pi = doc.createElement('printindex')
    try:
        pi.digest(iter([]))
    except Exception as e:
        return canon_exc(e)
    return observe_index(pi, order)


def impl_doc(es, cols, body, want_doc=False):
    doc, tex = fresh(cols)
    if want_doc:
        doc.config['files']['split-level'] = -100
    tex.input('\\documentclass{article}\\usepackage{makeidx}\\makeindex\\begin{document}\n' + body + '\n\\printindex\n\\end{document}\n')
    try:
        tex.parse()
    except Exception as e:
        return canon_exc(e)
    ents = doc.userdata.get('index', [])
    if len(ents) != len(es) or len({id(e.node) for e in ents}) != len(ents):
        return 'entries:%d' % len(ents)
    order = {id(e.node): i for i, e in enumerate(ents)}
    pis = doc.getElementsByTagName('printindex')
    if len(pis) != 1:
        return 'printindex:%d' % len(pis)
    if want_doc:
        return observe_index(pis[0], order), doc
    return observe_index(pis[0], order)


class _IndexHTML(__import__('html.parser').parser.HTMLParser):
    """read the generated index back: <li> nesting -> lines (depth, key text, number of page references),
    <section class=theindex>/<h2>/<ul class=index-column> -> headings and columns of top-level items"""
    def __init__(self):
        super().__init__(convert_charrefs=True)
        self.lines, self.stack, self.groups = [], [], []
        self.in_sec = self.in_h2 = False
        self.key_depth = 0          # >0: inside <span class="index-item"> (nesting of spans)
        self.ntop = 0

    def handle_starttag(self, tag, attrs):
        cls = dict(attrs).get('class') or ''
        if tag == 'section' and 'theindex' in cls.split():
            self.in_sec = True
            self.groups.append(['', []])
            return
        if not self.in_sec:
            return
        if self.key_depth:
            self.stack[-1][3] = True
            if tag == 'span':
                self.key_depth += 1
            return
        if tag == 'h2':
            self.in_h2 = True
        elif tag == 'ul' and cls == 'index-column':
            self.groups[-1][1].append([])
        elif tag == 'li':
            rec = [len(self.stack) + 1, '', 0, False]
            if not self.stack:
                if self.groups[-1][1]:
                    self.groups[-1][1][-1].append(self.ntop)
                self.ntop += 1
            self.stack.append(rec)
            self.lines.append(rec)
        elif tag == 'span' and cls == 'index-item' and self.stack:
            self.key_depth = 1
        elif tag in ('a', 'span') and cls.startswith('index-page') and self.stack:
            self.stack[-1][2] += 1

    def handle_endtag(self, tag):
        if not self.in_sec:
            return
        if self.key_depth:
            if tag == 'span':
                self.key_depth -= 1
            return
        if tag == 'section':
            self.in_sec = False
        elif tag == 'h2':
            self.in_h2 = False
        elif tag == 'li' and self.stack:
            self.stack.pop()

    def handle_data(self, data):
        if self.in_sec and self.key_depth and self.stack:
            self.stack[-1][1] += data
        elif self.in_sec and self.in_h2:
            self.groups[-1][0] += data


def observe_html(doc):
    """render with the HTML5 renderer into a scratch directory and read the index back"""
    import tempfile, shutil, glob
    from plasTeX.Renderers.HTML5 import Renderer
    work = tempfile.mkdtemp(prefix='c18html')
    cwd = os.getcwd()
    err = os.dup(2)
    devnull = os.open(os.devnull, os.O_WRONLY)
    try:
        os.chdir(work)
        os.dup2(devnull, 2)                # the imager probes (gs, pdflatex) complain on stderr
        try:
            Renderer().render(doc)
        except Exception as e:
            return canon_exc(e)
        html = ''.join(open(f, encoding='utf-8').read() for f in sorted(glob.glob(os.path.join(work, '*.html'))))
    finally:
        os.dup2(err, 2)
        os.close(err)
        os.close(devnull)
        os.chdir(cwd)
        shutil.rmtree(work, ignore_errors=True)
    p = _IndexHTML()
    p.feed(html)
    ls = []
    for d, text, n, marked in p.lines:
        t = '*' if (marked or '\\(' in text or '$' in text) else dots(text.strip())
        ls.append('%d/%s/%d' % (d, t, n))
    gs = ['%s/%s' % (dots(t.strip()), '|'.join(str(len(c)) for c in cs)) for t, cs in p.groups]
    return 'H: %s G %s' % (' '.join(ls), ' '.join(gs))


def impl_html(es, cols, body):
    r = impl_doc(es, cols, body, want_doc=True)
    if not isinstance(r, tuple):
        return r
    dom, doc = r
    return dom + ' ## ' + observe_html(doc)


def project_dom(dom, line):
    """what the generated index must show for a DOM observation `L: … G …` (same projection as the driver's
    htmlStr): the sub-trees of the top-level entries in the order of the groups and their columns"""
    ws = line.split()
    txt = {}
    for i, w in enumerate(ws):
        if w == 'L':
            txt[(ws[i + 3][1:], ws[i + 1][1:])] = ws[i + 2][1:]
    L, G = dom[3:].split(' G ', 1) if ' G ' in dom else (dom[3:].rstrip(' G'), '')
    blocks = []
    for w in L.split():
        d, src, sk, pages = w.split('/')
        marked = any(c in ('123', '36') for c in src.split('.'))
        item = '%s/%s/%d' % (d, '*' if marked else txt.get((src, sk), '?'), len(pages.split('.')) if pages else 0)
        if d == '1':
            blocks.append([item])
        elif blocks:
            blocks[-1].append(item)
    gs, ls = [], []
    for gw in G.split():
        title, label, colsw = gw.split('/')
        gs.append('%s/%s' % (title, '|'.join(str(len(c.split(',')) if c else 0) for c in colsw.split('|'))))
        for c in colsw.split('|'):
            for x in (c.split(',') if c else []):
                if int(x) < len(blocks):
                    ls.extend(blocks[int(x)])
    return 'H: %s G %s' % (' '.join(ls), ' '.join(gs))


class _Item:
    def __init__(self, w):
        self.totallen = w


def impl(case, aux):
    st = case.stream
    if st in ('idxparse', 'idxspec'):
        r, arg = impl_parse(case.meta['s'], case.meta['oth'])
        if st == 'idxspec' and arg is not None:
            tb = list(case.meta['oth'])
            real = ' '.join(canon_tok(t, tb) for t in arg)
            if real != (aux[0] if aux else ''):
                return 'render-mismatch:' + real
        return r
    if st in ('idx', 'idx-asis'):
        return impl_idx(case.meta['es'], case.meta['cols'])
    if st == 'doc18':
        return impl_doc(case.meta['es'], case.meta['cols'], case.meta['body'])
    if st == 'html18':
        return impl_html(case.meta['es'], case.meta['cols'], case.meta['body'])
    if st == 'idxcols':
        ws = [int(x) for x in case.line.split()]
        cols, ws = ws[0], ws[1:]
        doc, tex = fresh()
        pi = doc.createElement('printindex')
        items = [_Item(w) for w in ws]
        pos = {id(x): i for i, x in enumerate(items)}
        try:
            out = pi.splitColumns(items, cols)
        except Exception as e:
            return canon_exc(e)
        return 'C:' + '|'.join(','.join(str(pos[id(x)]) for x in col) for col in out)
    raise ValueError(st)


# ---------------------------------------------------------------- the property oracle

def undots(s):
    return ''.join(chr(int(x)) for x in s.split('.')) if s else ''


def parse_line_tables(line):
    """sk -> collation key, sk -> initial, from the request line"""
    ws = line.split()
    coll, ini = {}, {}
    for i, w in enumerate(ws):
        if w == 'L':
            sk = ws[i + 1][1:]
            coll[sk] = [int(x) for x in ws[i + 4][1:].split('.')] if ws[i + 4] != 's' else []
            ini[sk] = None if ws[i + 6] == 'x' else undots(ws[i + 6][1:])
    return int(ws[0]), coll, ini


def oracle_idx(o, impl=None):
    """the property statement on the observed index; returns '' or a complaint"""
    impl = o.impl if impl is None else impl
    if not impl.startswith('L: '):
        return 'no index: ' + impl
    cols, coll, ini = parse_line_tables(o.case.line)
    L, G = impl[3:].split(' G ', 1) if ' G ' in impl else (impl[3:].rstrip(' G'), '')
    # 1 lines: one per path (and prefix), pages = occurrences in document order
    got, stack, sibs = [], [], {}
    for w in L.split():
        d, src, sk, pages = w.split('/')
        d = int(d)
        if d < 1 or d > len(stack) + 1:
            return 'malformed tree depth at ' + w
        stack = stack[:d - 1] + [src + '~' + sk]
        got.append(('>'.join(stack), pages))
        sibs.setdefault('>'.join(stack[:-1]), []).append(sk)
    want = [tuple(w.rsplit('/', 1)) for w in o.spec.split()]
    if sorted(got) != sorted(want):
        miss = sorted(set(want) - set(got))[:3]
        extra = sorted(set(got) - set(want))[:3]
        return 'lines differ from one-line-per-path: missing %s unexpected %s%s' % (miss, extra, '' if len(got) == len(set(p for p, _ in got)) else ' (duplicate path lines)')
    # 2 siblings ordered by the collation key of their sort key
    for parent, sks in sibs.items():
        ks = [coll[s] for s in sks]
        if any(ks[i] > ks[i + 1] for i in range(len(ks) - 1)):
            return 'siblings under %r not in collation order' % parent
    # 3 groups by initial, columns a partition in order
    ntop = len(sibs.get('', []))
    if G.startswith('err'):
        return 'groups raised ' + G
    flat, seen, prev_first = [], set(), -1
    for gw in G.split():
        title, label, colsw = gw.split('/')
        title = undots(title)
        columns = [[int(x) for x in c.split(',')] if c else [] for c in colsw.split('|')]
        if len(columns) != cols:
            return 'group %r has %d columns, not %d' % (title, len(columns), cols)
        items = [x for c in columns for x in c]
        if not items:
            return 'empty group %r' % title
        if title in seen:
            return 'two groups with the same heading %r' % title
        seen.add(title)
        if any(items[i] >= items[i + 1] for i in range(len(items) - 1)):
            return 'the columns of group %r do not keep the order of its entries: %s' % (title, items)
        if items[0] < prev_first:
            return 'groups are not ordered by their first entry'
        prev_first = items[0]
        for x in items:
            i0 = ini[sibs[''][x]] if x < ntop else None
            b0 = base_letter(undots(sibs[''][x])) if x < ntop else None
            if b0 is not None and title != b0:
                return 'entry with sort key %r (initial letter %r) under heading %r' % (undots(sibs[''][x]), b0, title)
            letter = i0 is not None and len(i0) == 1 and i0.isascii() and i0.isalpha()
            if letter and title != i0:
                return 'entry with initial %r under heading %r' % (i0, title)
            if not letter and len(title) == 1 and title.isalpha():
                return 'non-letter entry under letter heading %r' % title
        flat.extend(items)
    if sorted(flat) != list(range(ntop)):
        return 'groups/columns are not a partition of the top-level entries: %s' % flat
    return ''


def judge(o):
    st = o.case.stream
    o.corr_ok = (o.impl == o.model)
    if st in ('idx', 'doc18', 'idx-asis'):
        if st == 'idx-asis':
            o.prop_ok = True
            return
        if o.spec == '-':
            o.prop_ok = True
            return
        msg = oracle_idx(o)
        o.prop_ok = (msg == '')
        o.note = msg
    elif st == 'html18':
        dom, _, html = o.impl.partition(' ## ')
        msg = oracle_idx(o, dom)
        if not msg:
            want = project_dom(dom, o.case.line)
            if html != want:
                msg = 'the generated HTML index differs from the index tree: generated %s expected %s' % (html[:300], want[:300])
        o.prop_ok = (msg == '')
        o.note = msg
    elif st == 'idxcols':
        ws = o.case.line.split()
        cols, n = int(ws[0]), len(ws) - 1
        if cols >= 1:
            got = [[int(x) for x in c.split(',')] if c else [] for c in o.impl[2:].split('|')] if o.impl.startswith('C:') else None
            o.prop_ok = got is not None and len(got) == cols and [x for c in got for x in c] == list(range(n))
            if not o.prop_ok:
                o.note = 'columns are not an order-preserving partition into %d columns' % cols
        else:
            o.prop_ok = True
    else:
        o.prop_ok = (o.spec == '-' or o.impl == o.spec)


# ---------------------------------------------------------------- shrink / search

def _mk(o, es, cols):
    m = dict(o.case.meta)
    m['es'], m['cols'] = es, cols
    if o.case.stream in ('doc18', 'html18'):
        m['body'] = ' '.join('w\\index{%s%s}' % ('!'.join(l), f) for l, f in es)
    return Case(o.case.stream, entries_line(es, cols), m, 'shrink')


def shrink(ctx, o, evaluate):
    if o.case.stream not in ('idx', 'doc18', 'html18'):
        return o
    best = o
    improved = True
    while improved:
        improved = False
        es, cols = best.case.meta['es'], best.case.meta['cols']
        cands = [es[:i] + es[i + 1:] for i in range(len(es))]
        cands += [es[:i] + [(es[i][0], '')] + es[i + 1:] for i in range(len(es)) if es[i][1]]
        cands += [es[:i] + [(es[i][0][:-1], es[i][1])] + es[i + 1:] for i in range(len(es)) if len(es[i][0]) > 1]
        cs = [_mk(best, [(list(l), f) for l, f in c], cols) for c in cands if c]
        for r in evaluate(cs):
            if not r.prop_ok:
                best, improved = r, True
                break
    return best


def search(ctx, evaluate, corr_bad):
    """proof or tie broken, nothing seen in the main batch: shrinks of the disagreeing cases, then a larger seeded
    batch (longer entry lists, more repeats) against the Spec oracle"""
    rng = random.Random(ctx.seed * 7919 + 18)
    for o in corr_bad[:20]:
        if o.case.stream in ('idx', 'doc18', 'html18'):
            es, cols = o.case.meta['es'], o.case.meta['cols']
            cs = [_mk(o, es[:k], c) for k in range(1, len(es) + 1) for c in (1, 2, 3, 4)]
            bad = [r for r in evaluate(cs) if not r.prop_ok]
            if bad:
                b = shrink(ctx, bad[0], evaluate)
                return Violation('implementation differs from the property oracle (found by search): ' + b.note,
                                 {'kind': 'failing-input', 'outcome': b.to_json()})
    cases = []
    for _ in range(4000):
        es = gen_entries(rng, rng.randint(1, 40))
        cols = rng.randint(1, 4)
        cases.append(Case('idx', entries_line(es, cols), {'es': es, 'cols': cols}, 'search'))
    for _ in range(300):
        es = gen_entries(rng, rng.randint(1, 16))
        cols = rng.randint(1, 4)
        cases.append(Case('doc18', entries_line(es, cols), {'es': es, 'cols': cols, 'body': gen_doc_body(rng, es)}, 'search'))
    for _ in range(150):
        es = gen_entries(rng, rng.randint(2, 16)) + [([rng.choice(POOL), rng.choice(POOL), rng.choice(POOL)], '')]
        cols = rng.randint(1, 4)
        cases.append(Case('html18', entries_line(es, cols), {'es': es, 'cols': cols, 'body': gen_doc_body(rng, es)}, 'search'))
    for _ in range(3000):
        cols = rng.randint(1, 6)
        cases.append(Case('idxcols', ' '.join([str(cols)] + [str(rng.choice([1, 1, 2, 3, 7])) for _ in range(rng.randint(0, 14))]), None, 'search'))
    for _ in range(3000):
        line, s, table = gen_spec_entry(rng)
        cases.append(Case('idxspec', line, {'s': s, 'oth': table}, 'search'))
    bad = [o for o in evaluate(cases) if not o.prop_ok]
    if bad:
        b = shrink(ctx, bad[0], evaluate)
        return Violation('implementation differs from the property oracle (found by search): ' + b.note,
                         {'kind': 'failing-input', 'outcome': b.to_json()})
    return None
