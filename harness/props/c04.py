"""C04 - Grouping restores every local change and leaves the context stack balanced.

streams
  ctx    : operation histories issued directly on a fresh real `Context` (push/pop with objects,
           addGlobal/addLocal, let, catcode, verbatim, lookup); after every operation both sides dump
           depth, visible meaning + membership of tracked names, lets, category of tracked characters.
           Exhaustive for short histories, seeded random for long ones.  The *property* oracle is the
           abstract scoping semantics `ScopeOracle` below (stack of finite maps, a group is evaluated on a
           copy) applied to balanced histories.
  (document level `ctxdoc` is in extra_checks: generated balanced documents; context depth after parse,
   probes of definitions/catcodes before/inside/after groups.)
"""
import logging, itertools, random as _random
from framework import Case, Violation

ID = 'C04'
LEAN_MODULE = 'PlasVerif.Properties.C04'
LEVEL_TEXT = ('Lean 4 theorems over a line-by-line model of the context stack (ContextItem chained lookup, push/pop incl. the pop-until rules, addGlobal/addLocal, let/get_let, '
              'copy-on-write catcodes, define-on-miss lookup): for EVERY balanced history (any nesting of anonymous groups and object-pushed frames, any local/global operations) run on any stack, '
              'the stack depth is unchanged, the categories in force are back, and the only surviving effect is a change Delta: global definitions / global aliases added to the global frame and the local meanings of globally assigned names (\\gdef, \\global\\let) dropped at every level '
              '(group_restores / depth_balanced / catcode_local / def_local / let_local / gdef_survives / gdef_replaces_every_level / glet_replaces_every_level / glet_survives / lookup_innermost / pop_obj_exact). '
              'The model is tied to the real Context by exhaustive short and random long operation histories with a full state dump after every operation, '
              'and the document level (who pushes/pops: groups, environments, math, tabular cells, arguments) by generated balanced documents.')
LEVEL_NOTE = ('Trusted: Lean kernel, correspondence harness (object pool of 7 objects (one of a class that subclasses another pooled class and overrides its local macro), 3 names, 4 characters), the Python scoping oracle used for prop_ok/search. '
              'Not modelled: loadPackage/importMacros, languages, currenvir; which macro pushes/pops what is carried by the document-level stream only.')
TECHNIQUE = 'Lean 4 proof (induction over balanced operation histories, frame invariant) + exhaustive/seeded differential correspondence on the real Context'
TRUSTED = ['python oracle harness/props/c04.py:ScopeOracle (abstract scoping semantics for balanced histories)']
ASSUMPTIONS = ['objects pushed in balanced histories are not document-level (a document-level push resets the stack by design)',
               'category codes 0..15']
RULE = ('exhaustive: every history of length <= L over 34 concrete operations (L=3 quick, 4 thorough); seeded: random histories up to length 60, half of them balanced by construction; '
        'non-trivial = history contains a push, a pop and at least one definition/let/catcode operation; distinct = distinct request line')
EXHAUSTIVE = {'quick': 'all histories of length <= 3 over the 34-operation alphabet', 'thorough': 'all histories of length <= 4 over the 34-operation alphabet'}
CASE_TIMEOUT = 30

logging.disable(logging.CRITICAL)
GENERATED = []

# object pool: id, parent, type, modeEnd, docLevel, name
POOL = [(1, 0, 1, 0, 0, 'foo'), (2, 1, 2, 0, 0, 'bar'), (3, 0, 1, 1, 0, 'foo'), (4, 0, 4, 0, 0, 'endbar'), (5, 0, 5, 0, 1, 'document'), (6, 2, 6, 0, 0, 'baz'),
        (7, 0, 7, 0, 0, 'bazz')]     # type 7 is a subclass of type 6 that overrides its local macro (eqnarray / eqnarray*)
LOCALS = {6: [(1, 20)], 7: [(1, 21)]}
POOLW = ' '.join('o:%d:%d:%d:%d:%d:%s' % (i, p, t, me, dl, ','.join(str(ord(c)) for c in nm)) for i, p, t, me, dl, nm in POOL)
NAMES, LETS, CHARS = [1, 2, 3], [1, 2], [64, 92, 37, 97]

OPS = ['pu:0', 'pu:1', 'pu:2', 'pu:6:1=20', 'pu:7:1=21', 'pu:5', 'po:0', 'po:1', 'po:2', 'po:3', 'po:4', 'po:6', 'po:7',
       'ag:1:10', 'ag:2:11', 'gd:1:30', 'gd:2:31', 'al:1:12', 'al:2:13', 'lc:1:2', 'lc:3:1', 'lt:1:65', 'lt:2:66', 'gl:1:2', 'gl:3:1', 'gl:1:1', 'gt:1:67', 'gt:2:68',
       'sc:64:11', 'sc:92:12', 'sc:97:14', 'sv', 'lk:1', 'lk:3']
LOCAL_OPS = [o for o in OPS if not o.startswith(('pu', 'po'))]


def mkline(ops):
    return POOLW + ' | ' + ' '.join(ops)


def gen_balanced(rng, depth, budget):
    """balanced history per Spec.Balanced: ops, push o :: b ++ [pop o]"""
    out = []
    n = rng.randint(0, 4)
    for _ in range(n):
        if budget[0] <= 0:
            break
        if depth < 5 and rng.random() < 0.4:
            k = rng.choice([0, 0, 1, 2, 6, 7])
            budget[0] -= 2
            out.append('pu:%d' % k + (':1=20' if k == 6 else ':1=21' if k == 7 else ''))
            out += gen_balanced(rng, depth + 1, budget)
            closer = {1: 3, 2: 4}.get(k) if rng.random() < 0.5 else None   # \end{env} instance / \endname macro
            out.append('po:%d' % (closer or k))
        else:
            budget[0] -= 1
            out.append(rng.choice(LOCAL_OPS))
    return out


def gen_paired(rng):
    """openers and their closers in random interleaving (pairs may overlap), mixed with plain operations"""
    n = rng.randint(1, 4)
    ops, pending = [], []
    for _ in range(n):
        k = rng.choice([0, 0, 1])
        pending.append(k)
    openers = list(pending)
    rng.shuffle(openers)
    seq = [('pu', k) for k in openers]
    closers = [('po', k) for k in openers]
    rng.shuffle(closers)
    # merge keeping each opener before its closer: open all in order, interleave closers after their opener
    out, opened = [], []
    todo_o, todo_c = list(seq), list(closers)
    while todo_o or todo_c:
        can_close = [c for c in todo_c if c[1] in opened]
        if todo_o and (not can_close or rng.random() < 0.5):
            _, k = todo_o.pop(0); opened.append(k)
            out.append('pu:%d' % k + (':1=20' if k == 6 else ':1=21' if k == 7 else ''))
        elif can_close:
            c = rng.choice(can_close); todo_c.remove(c); opened.remove(c[1])
            k = c[1]
            closer = {1: 3, 2: 4}.get(k) if rng.random() < 0.5 else None
            out.append('po:%d' % (closer or k))
        if rng.random() < 0.4:
            out.append(rng.choice(LOCAL_OPS))
    return out


def generate(ctx):
    rng = ctx.rng
    for _ in range(1500 if ctx.tier == 'quick' else 20000):
        yield Case('ctx', mkline(gen_paired(rng)), None)
    L = 3 if ctx.tier == 'quick' else 4
    for n in range(0, L + 1):
        for tup in itertools.product(OPS, repeat=n):
            yield Case('ctx', mkline(tup), None)
    n = 4000 if ctx.tier == 'quick' else 60000
    for _ in range(n):
        if rng.random() < 0.5:
            ops = gen_balanced(rng, 0, [rng.randint(4, 60)])
            yield Case('ctx', mkline(ops), {'balanced': True})
        else:
            yield Case('ctx', mkline([rng.choice(OPS) for _ in range(rng.randint(1, 60))]), None)


def corpus():
    return [Case('ctx', mkline(['pu:0', 'al:1:12', 'sc:64:11', 'lt:1:65', 'lk:3', 'po:0']), {'balanced': True}, 'corpus'),
            Case('ctx', mkline(['pu:1', 'pu:0', 'sc:92:12', 'po:1']), None, 'corpus'),
            Case('ctx', mkline(['pu:2', 'pu:1', 'po:4']), None, 'corpus'),
            Case('ctx', mkline(['pu:0', 'pu:1', 'pu:5', 'sc:64:11', 'po:0']), None, 'corpus')]


def nontrivial(o):
    ws = o.case.line.split('|')[1].split()
    return any(w.startswith('pu') for w in ws) and any(w.startswith('po') for w in ws) and any(w[:2] in ('ag', 'gd', 'al', 'lc', 'lt', 'gl', 'gt', 'sc', 'sv') for w in ws)


# ---------------------------------------------------------------- implementation side

_cls = {}


def _setup():
    if _cls:
        return _cls
    from plasTeX import Command, Macro, Environment
    from plasTeX.DOM import Node
    vals = {}
    def val(n, v):
        if (n, v) not in vals:
            vals[(n, v)] = type('n%d' % n, (Command,), {'macroName': 'n%d' % n, 'vid': v})
        return vals[(n, v)]
    types = {}
    for i, p, t, me, dl, nm in POOL:
        if t not in types:
            attrs = {'macroName': nm}
            if dl:
                attrs['level'] = Node.DOCUMENT_LEVEL
            for (n, v) in LOCALS.get(i, []):
                attrs['loc%d' % n] = val(n, v)
            # type 1 ('foo', closed by its \\end instance) is an Environment class, the others are Commands
            types[t] = type('T%d' % t, (types[6] if t == 7 else Environment if t == 1 else Command,), attrs)
    _cls.update(val=val, types=types, Macro=Macro)
    return _cls


def fresh():
    from plasTeX.Context import Context
    c = _setup()
    ctx = Context()
    objs = {}
    for i, p, t, me, dl, nm in POOL:
        o = c['types'][t]()
        if me:
            o.macroMode = c['Macro'].MODE_END
        objs[i] = o
    for i, p, t, me, dl, nm in POOL:
        if p:
            objs[i].parentNode = objs[p]
    return ctx, objs


def dump(ctx):
    from plasTeX.Tokenizer import EscapeSequence
    ms = []
    for n in NAMES:
        v = ctx.top.get('n%d' % n)
        if v is None: s = '-'
        elif hasattr(v, 'vid'): s = 'D%d' % v.vid
        elif isinstance(getattr(v, 'definition', None), list): s = 'D' + ''.join(str(t) for t in v.definition)
        else: s = 'U%s' % v.__name__[1:]
        ms.append('%d:%s:%d' % (n, s, 1 if ('n%d' % n) in ctx else 0))
    ls = []
    for n in LETS:
        e = EscapeSequence('n%d' % n)
        r = ctx.get_let(e)
        ls.append('%d:%s' % (n, '-' if r is e else str(ord(str(r)))))
    ks = [str(int(ctx.whichCode(chr(c)))) for c in CHARS]
    return 'd=%d m=%s l=%s c=%s' % (len(ctx.contexts), ','.join(ms), ','.join(ls), ','.join(ks))


def apply_op(ctx, objs, w):
    from plasTeX.Tokenizer import EscapeSequence, Letter
    c = _setup()
    f = w.split(':')
    if f[0] == 'pu': ctx.push(objs[int(f[1])] if f[1] != '0' else None)
    elif f[0] == 'po': ctx.pop(objs[int(f[1])] if f[1] != '0' else None)
    elif f[0] == 'ag': ctx.addGlobal('n' + f[1], c['val'](int(f[1]), int(f[2])))
    elif f[0] == 'gd': ctx.newdef('n' + f[1], None, f[2], local=False)      # \gdef: definition text = the value id
    elif f[0] == 'al': ctx.addLocal('n' + f[1], c['val'](int(f[1]), int(f[2])))
    elif f[0] == 'lc': ctx.let(EscapeSequence('n' + f[1]), EscapeSequence('n' + f[2]))
    elif f[0] == 'lt': ctx.let(EscapeSequence('n' + f[1]), Letter(chr(int(f[2]))))
    elif f[0] == 'gl': ctx.let(EscapeSequence('n' + f[1]), EscapeSequence('n' + f[2]), local=False)      # \global\let\a=\b
    elif f[0] == 'gt': ctx.let(EscapeSequence('n' + f[1]), Letter(chr(int(f[2]))), local=False)          # \global\let\a=<char>
    elif f[0] == 'sc': ctx.catcode(chr(int(f[1])), int(f[2]))
    elif f[0] == 'sv': ctx.setVerbatimCatcodes()
    elif f[0] == 'lk': ctx['n' + f[1]]
    else: raise ValueError(w)


def impl(case, aux):
    ctx, objs = fresh()
    ctx.warnOnUnrecognized = False
    outs = []
    try:
        for w in case.line.split('|')[1].split():
            apply_op(ctx, objs, w)
            outs.append(dump(ctx))
    except Exception as e:
        outs.append('err:' + type(e).__name__)
    return ' ; '.join(outs)


# ---------------------------------------------------------------- property oracle: abstract scoping semantics

class ScopeOracle:
    """An environment is a stack of scopes; each scope holds local macro bindings, local lets and the category map in force.
    A group is evaluated on a new scope that is discarded when it closes; global definitions go to the outermost scope."""
    def __init__(self):
        self.scopes = [{'m': {}, 'l': {}, 'c': None}]   # 'c': dict char->code overrides or None (inherit)
        self.cat = [{}]                                  # category overrides per scope (full effective map copies)
        self.verb = [False]

    def run(self, ops):
        outs = []
        for w in ops:
            f = w.split(':')
            if f[0] == 'pu':
                loc = {}
                if len(f) > 2 and f[2]:
                    for kv in f[2].split(','):
                        k, v = kv.split('=')
                        loc[int(k)] = 'D' + v
                self.scopes.append({'m': loc, 'l': {}})
                self.cat.append(dict(self.cat[-1])); self.verb.append(self.verb[-1])
            elif f[0] == 'po':
                self.scopes.pop(); self.cat.pop(); self.verb.pop()
            elif f[0] == 'ag': self.scopes[0]['m'][int(f[1])] = 'D' + f[2]
            elif f[0] == 'gd':
                # \gdef: the new meaning holds at every level (TeX: a global assignment discards the local values)
                for sc in self.scopes:
                    sc['m'].pop(int(f[1]), None)
                self.scopes[0]['m'][int(f[1])] = 'D' + f[2]
            elif f[0] == 'al': self.scopes[-1]['m'][int(f[1])] = 'D' + f[2]
            elif f[0] == 'lk': self.lookup(int(f[1]))
            elif f[0] == 'lc': self.scopes[-1]['m'][int(f[1])] = self.lookup(int(f[2]))
            elif f[0] == 'lt': self.scopes[-1]['l'][int(f[1])] = f[2]
            elif f[0] in ('gl', 'gt'):
                # \global\let: the new meaning holds at every level, the local meanings (macro or token alias) are discarded
                v = self.lookup(int(f[2])) if f[0] == 'gl' else None
                for sc in self.scopes[1:]:
                    sc['m'].pop(int(f[1]), None); sc['l'].pop(int(f[1]), None)
                if f[0] == 'gl': self.scopes[0]['m'][int(f[1])] = v
                else: self.scopes[0]['l'][int(f[1])] = f[2]
            elif f[0] == 'sc': self.cat[-1][int(f[1])] = int(f[2])
            elif f[0] == 'sv':
                self.verb[-1] = True; self.cat[-1] = {}
            outs.append(self.dump())
        return ' ; '.join(outs)

    def find(self, n):
        for s in reversed(self.scopes):
            if n in s['m']:
                return s['m'][n]
        return None

    def lookup(self, n):
        v = self.find(n)
        if v is None:
            v = self.scopes[0]['m'][n] = 'U%d' % n
        return v

    def code(self, ch):
        if ch in self.cat[-1]:
            return self.cat[-1][ch]
        letters = (65 <= ch <= 90) or (97 <= ch <= 122)
        if self.verb[-1]:
            return 11 if letters else 12
        base = {92: 0, 37: 14}
        return 11 if letters else base.get(ch, 12)

    def dump(self):
        ms = []
        for n in NAMES:
            v = self.find(n)
            ms.append('%d:%s:%d' % (n, v or '-', 1 if v else 0))
        ls = []
        for n in LETS:
            r = None
            for s in reversed(self.scopes):
                if n in s['l']:
                    r = s['l'][n]; break
            ls.append('%d:%s' % (n, r or '-'))
        return 'd=%d m=%s l=%s c=%s' % (len(self.scopes), ','.join(ms), ','.join(ls), ','.join(str(self.code(c)) for c in CHARS))


def closes(a, b):
    """Spec.Balanced.closes on the object pool: same object, or the \\end instance of the same class, or a macro named end<name>;
    never the parent node of the frame's object"""
    if a == b:
        return True
    if a == '0' or b == '0':
        return False
    pool = {str(i): (p, t, me, nm) for i, p, t, me, dl, nm in POOL}
    pa, ta, _, na = pool[a]
    pb, tb, meb, nb = pool[b]
    return str(pb) != a and ((ta == tb and bool(meb)) or nb == 'end' + na)


def is_balanced(ops):
    st = []
    for w in ops:
        if w.startswith('pu'):
            k = w.split(':')[1]
            if k == '5':
                return False
            st.append(k)
        elif w.startswith('po'):
            if not st:
                return False
            a, b = st.pop(), w.split(':')[1]
            if not closes(a, b):
                return False
    return not st


def is_paired(ops):
    """every opener has exactly one later closer and every closer closes an opener that came before it, but the pairs may
    overlap (`{ \\begin{e} } \\end{e}`): the statement's "however the groups were nested or interleaved with environments".
    Only the depth clause is checked on these histories."""
    open_, lost = [], []
    for w in ops:
        if w.startswith('pu'):
            k = w.split(':')[1]
            if k not in ('0', '1'):
                return False        # objects with parent links between them: overlap is not supported by the pop rules (by design)
            open_.append(k)
        elif w.startswith('po'):
            j = w.split(':')[1]
            idx = [i for i in range(len(open_)) if closes(open_[i], j)]
            if idx:
                i = idx[-1]
                lost += open_[i + 1:]
                del open_[i:]
            else:
                m = [x for x in lost if closes(x, j)]
                if not m:
                    return False
                lost.remove(m[-1])
    return not open_ and not lost


def judge(o):
    ops = o.case.line.split('|')[1].split()
    o.corr_ok = (o.impl == o.model)
    if is_balanced(ops):
        o.spec = ScopeOracle().run(ops)
        o.prop_ok = (o.impl == o.spec)
    elif is_paired(ops):
        o.spec = 'final d=1'
        o.prop_ok = o.impl.split(' ; ')[-1].startswith('d=1 ')
        o.in_domain = False         # overlapping pairs: only the final depth is part of the statement
    else:
        o.spec = '-'
        o.prop_ok = True
        o.in_domain = False         # unbalanced history: outside the property's quantifier


def shrink(ctx, o, evaluate):
    best = o
    changed = True
    while changed:
        changed = False
        ops = best.case.line.split('|')[1].split()
        cands = [ops[:i] + ops[i + 1:] for i in range(len(ops))]
        # removing a matched push/pop pair keeps balance
        for i, w in enumerate(ops):
            if w.startswith('pu'):
                d = 0
                for j in range(i, len(ops)):
                    if ops[j].startswith('pu'): d += 1
                    elif ops[j].startswith('po'):
                        d -= 1
                        if d == 0:
                            cands.append(ops[:i] + ops[i + 1:j] + ops[j + 1:]); break
        cs = [Case('ctx', mkline(c), None, 'shrink') for c in cands if is_balanced(c)]
        for r in evaluate(cs):
            if not r.prop_ok:
                best = r; changed = True; break
    return best


def search(ctx, evaluate, corr_bad):
    rng = _random.Random(ctx.seed + 31337)
    cases = [Case('ctx', mkline(gen_balanced(rng, 0, [rng.randint(4, 40)])), None, 'search') for _ in range(30000)]
    bad = [o for o in evaluate(cases) if not o.prop_ok]
    if bad:
        o = shrink(ctx, min(bad, key=lambda x: len(x.case.line)), evaluate)
        return Violation('the real Context deviates from the scoping semantics on a balanced history (found by search)',
                         {'kind': 'failing-input', 'outcome': o.to_json()})
    return None


# ---------------------------------------------------------------- document level (ctxdoc)

class DocGen:
    """balanced documents mixing groups of every kind with local/global definitions, \\let, \\catcode;
    the expected visible text is computed by the abstract scoping semantics on the generator's own AST."""
    KINDS = ['brace', 'begingroup', 'quote', 'center', 'math', 'arg', 'tabular', 'itemize', 'ncenv', 'newenv', 'letend', 'unkenv']

    def __init__(self, rng):
        self.rng = rng
        self.n = 0
        self.src = []
        self.exp = []
        self.scopes = [{}]          # macro meanings: name -> word
        self.pct = [False]          # is % an ordinary character in this scope
        self.steps = 0              # \stepcounter calls so far (counters are global)
        self.flag = False           # state of the \newif switch (global)
        self.inarg = 0              # inside a macro argument (already tokenized: \catcode cannot affect its text)

    def word(self):
        self.n += 1
        return 'W%dx' % self.n

    def meaning(self, k):
        for s in reversed(self.scopes):
            if k in s:
                return s[k]
        raise KeyError(k)

    def emit_text(self):
        w = self.word()
        self.src.append(w + ' ')
        self.exp.append(w)

    def plain(self, inmath):
        r = self.rng.random()
        k = self.rng.randint(1, 3)
        if r < 0.2:
            self.emit_text()
        elif r < 0.26:
            self.src.append('\\stepcounter{cq}'); self.steps += 1
        elif r < 0.32:
            if self.rng.random() < 0.5:
                self.flag = self.rng.random() < 0.6
                self.src.append('\\zztrue ' if self.flag else '\\zzfalse ')
            else:
                w1, w2 = self.word(), self.word()
                self.src.append('\\ifzz %s\\else %s\\fi ' % (w1, w2)); self.exp.append(w1 if self.flag else w2)
        elif r < 0.45:
            w = self.word()
            self.src.append('\\def\\p%s{%s}' % ('abc'[k - 1], w)); self.scopes[-1][k] = w
        elif r < 0.55:
            w = self.word()
            self.src.append(self.rng.choice(['\\gdef', '\\global\\def', '\\global\\long\\def']) + '\\p%s{%s}' % ('abc'[k - 1], w))
            # \gdef replaces the meaning at every group level (TeX: a global assignment discards the local values)
            for sc in self.scopes:
                sc.pop(k, None)
            self.scopes[0][k] = w
        elif r < 0.58:
            # \global\let: like \gdef, the alias holds at every level and survives the groups
            j = self.rng.randint(1, 3)
            m = self.meaning(j)
            self.src.append('\\global\\let\\p%s=\\p%s ' % ('abc'[k - 1], 'abc'[j - 1]))
            for sc in self.scopes:
                sc.pop(k, None)
            self.scopes[0][k] = m
        elif r < 0.65:
            j = self.rng.randint(1, 3)
            self.src.append('\\let\\p%s=\\p%s ' % ('abc'[k - 1], 'abc'[j - 1])); self.scopes[-1][k] = self.meaning(j)
        elif r < 0.9:
            self.src.append('\\p%s ' % 'abc'[k - 1]); self.exp.append(self.meaning(k))
        elif not inmath and not self.inarg:
            if self.pct[-1]:
                w1, w2 = self.word(), self.word()
                self.src.append(w1 + '%' + w2 + ' '); self.exp.append(w1 + '%' + w2)
            elif len(self.scopes) > 1 and self.rng.random() < 0.5:
                self.src.append('\\catcode`\\%=12\\relax '); self.pct[-1] = True
            else:
                w1, w2 = self.word(), self.word()
                self.src.append(w1 + '%' + w2 + '\n'); self.exp.append(w1)

    def body(self, depth, inmath, intab=False):
        for _ in range(self.rng.randint(1, 5)):
            if depth < 4 and self.rng.random() < 0.4:
                self.group(depth + 1, inmath, intab)
            else:
                self.plain(inmath)

    def group(self, depth, inmath, intab):
        kinds = ['brace', 'begingroup', 'arg', 'unkenv', 'ncenv', 'newenv'] if inmath else self.KINDS
        if intab:
            kinds = [k for k in kinds if k != 'tabular']
        kind = self.rng.choice(kinds)
        def scoped(f):
            self.scopes.append({}); self.pct.append(self.pct[-1])
            f()
            self.scopes.pop(); self.pct.pop()
        if kind == 'brace':
            self.src.append('{'); scoped(lambda: self.body(depth, inmath, intab)); self.src.append('}')
        elif kind == 'begingroup':
            self.src.append('\\begingroup '); scoped(lambda: self.body(depth, inmath, intab)); self.src.append('\\endgroup ')
        elif kind in ('quote', 'center'):
            self.src.append('\\begin{%s}' % kind); scoped(lambda: self.body(depth, inmath, intab)); self.src.append('\\end{%s}' % kind)
        elif kind in ('ncenv', 'newenv', 'letend', 'unkenv'):
            # \begin{x}..\end{x} is a group whatever x is: a \newcommand used as an environment (no \endx), a \newenvironment,
            # one whose end part was \let to \relax, and an environment plasTeX does not know at all
            name = {'ncenv': 'ncq', 'newenv': 'nvq', 'letend': 'nlq', 'unkenv': self.rng.choice(['cases', 'zzunk', 'aligned'])}[kind]
            self.src.append('\\begin{%s}' % name); scoped(lambda: self.body(depth, inmath, intab)); self.src.append('\\end{%s}' % name)
        elif kind == 'math':
            def mbody():
                self.emit_text()          # never an empty `$$` (that would open display math)
                self.body(depth, True, intab)
            if not inmath and self.rng.random() < 0.15:
                # a formula whose content expands to nothing, directly followed by the next formula: `$\\zzempty$$W$` is two
                # inline formulas (the `$$` in the middle is a closing and an opening shift, not display math)
                self.src.append('$\\zzempty$')
            self.src.append('$'); scoped(mbody); self.src.append('$ ')
        elif kind == 'arg':
            self.src.append(self.rng.choice(['\\mbox{', '\\textbf{', '\\emph{']))
            self.inarg += 1
            scoped(lambda: self.body(depth, inmath, intab))
            self.inarg -= 1
            self.src.append('}')
        elif kind == 'itemize':
            self.src.append('\\begin{itemize}')
            def items():
                for _ in range(self.rng.randint(1, 3)):
                    self.src.append('\\item ')
                    self.body(depth, inmath, intab)
            scoped(items)
            self.src.append('\\end{itemize}')
        elif kind == 'tabular':
            rows, cols = self.rng.randint(1, 3), self.rng.randint(1, 3)
            self.src.append('\\begin{tabular}{%s}' % ('l' * cols))
            def tab():
                for r in range(rows):
                    for c in range(cols):
                        scoped(lambda: self.body(depth, inmath, True))
                        self.src.append(' & ' if c < cols - 1 else ' \\\\ ')
            scoped(tab)
            self.src.append('\\end{tabular}')

    def make(self):
        pre = '\\newcounter{cq}\\newif\\ifzz \\newcommand\\ncq{}\\newenvironment{nvq}{}{}\\newenvironment{nlq}{}{}\\let\\endnlq\\relax \\newcommand\\zzempty{}'
        for k in (1, 2, 3):
            w = self.word()
            pre += '\\gdef\\p%s{%s}' % ('abc'[k - 1], w)
            self.scopes[0][k] = w
        self.body(0, False)
        self.exp.append('N%dN' % self.steps)
        return pre + ''.join(self.src) + ' N\\arabic{cq}N', ''.join(self.exp)


def run_doc(src):
    from plasTeX.TeX import TeX
    from plasTeX import TeXDocument
    doc = TeXDocument()
    tex = TeX(doc)
    d0 = len(doc.context.contexts)
    tex.input(src)
    try:
        tex.parse()
    except Exception as e:
        return {'err': type(e).__name__ + ': ' + str(e)[:100]}
    txt = ''.join(doc.textContent.split())
    return {'depth0': d0, 'depth': len(doc.context.contexts), 'text': txt,
            'pct': int(doc.context.whichCode('%')), 'at': int(doc.context.whichCode('@'))}


def check_doc(src, exp):
    r = run_doc(src)
    if 'err' in r:
        return 'exception ' + r['err'], r
    if r['depth'] != r['depth0']:
        return 'context depth %d after a balanced document (initially %d)' % (r['depth'], r['depth0']), r
    if r['pct'] != 14:
        return 'category of %% is %d after all groups closed' % r['pct'], r
    if r['text'] != exp:
        return 'visible text differs from the scoping semantics', r
    return None, r


# minimized past failures, run first (D59: \global was a no-op prefix)
WITNESS_DOCS = [('\\def\\pa{A}\\def\\pb{B}{\\global\\let\\pa=\\pb}\\pa', 'B'),
                ('\\def\\pa{A}{\\global\\def\\pa{G}}\\pa', 'G'),
                ('\\def\\pa{A}{\\def\\pa{L}{\\global\\long\\def\\pa{G}}\\pa}\\pa', 'GG')]


def extra_checks(ctx):
    rng = _random.Random(ctx.seed * 7 + 11)
    n = 400 if ctx.tier == 'quick' else 6000
    viol, samples, distinct = [], [], set()
    for src, exp in WITNESS_DOCS:
        why, r = check_doc(src, exp)
        if why:
            viol.append(Violation('document level: ' + why, {'kind': 'failing-input', 'extra': {'document': src, 'expected_text': exp},
                                                             'observed': r, 'why': why}))
            return viol, {'evaluations': len(WITNESS_DOCS), 'distinct_nontrivial': 0, 'samples': [], 'stream': 'ctxdoc'}
    for i in range(n):
        src, exp = DocGen(rng).make()
        why, r = check_doc(src, exp)
        if '\\def' in src or '\\let' in src or '\\catcode' in src:
            distinct.add(src)
        if i < 2:
            samples.append({'document': src, 'expected_text': exp, 'observed': r})
        if why:
            viol.append(Violation('document level: ' + why, {'kind': 'failing-input', 'extra': {'document': src, 'expected_text': exp},
                                                             'observed': r, 'why': why}))
            break
    return viol, {'evaluations': n, 'distinct_nontrivial': len(distinct), 'samples': samples, 'stream': 'ctxdoc'}


def replay_extra(ctx, extra):
    why, r = check_doc(extra['document'], extra['expected_text'])
    print('replay ctxdoc:', why or 'holds', r)
    return bool(why)
