"""C13 - Rendering splits the document into files without losing or repeating content.

streams
  split : (the driver also renders with the C15 model of Filenames as the name supply and predicts the real names; they
          are compared with the names the real Filenames issues)
          abstract trees (text leaves / elements with level, id, title, ref, name, footnote flag) x split level
          x real filename templates.  Driver: Model.Render.render with a counter name supply + the Spec's
          prescription (units in pre-order, body text then footnote text).  Implementation: the same tree built
          as real plasTeX DOM nodes (Command subclasses mixing in SectionUtils), rendered by the real
          `plasTeX.Renderers.Renderer.render` (real Renderable.filename/__str__, cacheFilenames, real Filenames,
          real SectionUtils.footnotes) over stub string templates; names canonicalised to f<k> by issue order,
          requests recorded through a recording subclass of the real Filenames.
  doc13 (extra_checks): generated LaTeX documents x split level -10..6 x filename templates x bad-chars settings
          x HTML5/XHTML themes, rendered by the real renderers into a temporary directory; oracle = the Spec
          (driver) on the abstract tree of the generated document.  Labels and titles are also drawn from a pool that
          collides with what the template itself produces (static names with/without extension, the first numbered
          names, values equal after sanitising).  "The same on every run" is checked twice: a second run in this
          process, and a sample of the documents (plus fixed standard documents) in fresh interpreter processes with
          different PYTHONHASHSEED values.  A sample also runs through the real command line client (plasTeX.client.main)
          with the split level / template / forbidden characters given by --config files, by switches, by both (the file holding
          other values) and by two files: the files written must be those the effective configuration prescribes and equal to
          the result of setting the same values on the configuration object.  A sample also runs through the real command line client (plasTeX.client.main)
          with the split level / template / forbidden characters given by --config files, by switches, by both (the file holding
          other values) and by two files: the files written must be those the effective configuration prescribes and equal to
          the result of setting the same values on the configuration object.
"""
import os, re, sys, json, shutil, tempfile, logging, random
from framework import Case, Violation, run_driver

ID = 'C13'
LEAN_MODULE = 'PlasVerif.Properties.C13'
LEVEL_TEXT = ('Lean 4 theorems over a model of Renderer.render / cacheFilenames / Renderable.filename / Renderable.__str__ / '
              'SectionUtils.footnotes with the filename generator as a parameter: for every document tree (footnotes nested, units inside '
              'footnotes, preamble nodes included), split level, template and generator, render_partition(_tops) proves that the files written '
              'are exactly one per unit at or above the (effective) split level, named by the generator in document order, each holding the '
              'body text of its region in document order followed by the footnote text of the region (so every text leaf occurs exactly '
              'once, in the file of its nearest splitting ancestor); one_file_per_split_unit, owner_is_nearest_splitting_ancestor, '
              'every_text_exactly_once, marker_once_in_one_file, footnotes_gathered_at_end, render_deterministic, '
              'single_name_template_one_file are stated separately; render_fails_only_with_generator / render_succeeds_iff / render_error_iff '
              'characterise success (rendering fails exactly when a name request fails, with the generator\'s exception); '
              'filenames_distinct_and_clean_with_Filenames instantiates the generator with the C15 model of plasTeX/Filenames.py and proves, '
              'without any hypothesis on the generator, that the file names are pairwise distinct, not taken before, and that a forbidden '
              'character in a name is one the template or extension spells literally. Templates (what a node prints around its children) '
              'are abstracted; real Jinja2/simpleTAL templates are carried by the doc13 document stream only.')
LEVEL_NOTE = ('Trusted: Lean kernel (axioms propext, Classical.choice, Quot.sound only), the correspondence harness and its generators, '
              'CPython. The filename generator is a parameter of the model; for the C15 model of Filenames the guarantee (distinct, clean names) is '
              'proved, and the names that model predicts are compared with the real names on every split case. '
              'Modelled not verified: template expansion (Jinja2/simpleTAL), images, theme extras, filenameoverride/splitlevel attributes.')
TECHNIQUE = 'Lean 4 proof (mutual structural induction on document trees) + differential correspondence (stub-template renderer) + document-level oracle'
TRUSTED = ['real HTML5/XHTML templates render the children of a node in order (doc13 stream only)',
           'plasTeX/Filenames.py is tied to its model by property C15; here its real names are compared with the names the composed model predicts, and checked for distinctness and forbidden characters, on every case']
ASSUMPTIONS = ['no node carries a filenameoverride or splitlevel attribute (set nowhere in plasTeX)',
               'a node with a unicode equivalent (node.str) is a leaf that is neither a sectioning unit nor a footnote (domain of the theorems; the model covers the other cases)',
               'which configuration is in effect (defaults < --config files < command line) is property C16; here the effective split level / template / forbidden characters are checked through the real command line client on a sample',
               'a node with a unicode equivalent (node.str) is a leaf that is neither a sectioning unit nor a footnote (domain of the theorems; the model covers the other cases)',
               'which configuration is in effect (defaults < --config files < command line) is property C16; here the effective split level / template / forbidden characters are checked through the real command line client on a sample',
               'every node with level < ENDSECTIONS_LEVEL mixes in SectionUtils (true of all plasTeX classes)',
               'blank titles are not combined with $title(n) (defect D12 of the filename generator, property C15)',
               'a footnote is never itself a sectioning unit (domain of the theorems; nested footnotes and units inside footnotes are covered)']
RULE = ('split: trees generated recursively from the seed (sections nested by level, paragraphs, inline nodes, footnotes, footnotes '
        'nested in footnotes, units inside footnotes; ~15% malformed: sections out of level order, several/no document-level roots, '
        'dying templates, split levels >= 100); non-trivial = spec defined and at least two files written; distinct = distinct '
        'driver request line. doc13: non-trivial = at least two files written; labels/titles partly drawn from names the template produces; '
        'determinism also across interpreter processes with PYTHONHASHSEED 0..3 (quick) / 0..7 (thorough)')
EXHAUSTIVE = {}
CASE_TIMEOUT = 20

logging.disable(logging.CRITICAL)

GENERATED = []

DEFAULT_BAD = ': #$%^&*!~`"\'=?/{}[]()|<>;\\,.'

# ---------------------------------------------------------------- abstract trees

class T:
    """abstract tree: text leaf (m) or element"""
    __slots__ = ('m', 'tag', 'level', 'foot', 'id', 'title', 'ref', 'name', 'kids', 'uni')

    def __init__(self, m=None, tag=0, level=1001, foot=False, id=None, title=None, ref=None, name='n', kids=None, uni=False):
        self.m, self.tag, self.level, self.foot, self.id, self.title, self.ref, self.name = m, tag, level, foot, id, title, ref, name
        self.uni = uni          # the node has a unicode equivalent (`node.str`): printed as that text
        self.kids = kids if kids is not None else []

    def is_text(self):
        return self.m is not None


def enc_opt(s):
    return '-' if s is None else ('=' if s == '' else s)


def dec_opt(s):
    return None if s == '-' else ('' if s == '=' else s)


def enc_tree(t, out):
    if t.is_text():
        out += ['T', str(t.m)]
    else:
        out += ['E', str(t.tag), 'D' if t.level == 'D' else str(t.level), ('3' if t.foot else '2') if t.uni else ('1' if t.foot else '0'), enc_opt(t.id), enc_opt(t.title),
                enc_opt(t.ref), t.name or '=', str(len(t.kids))]
        for k in t.kids:
            enc_tree(k, out)
    return out


def dec_trees(ws, i, n):
    res = []
    for _ in range(n):
        if ws[i] == 'T':
            res.append(T(m=int(ws[i + 1]))); i += 2
        else:
            tag, lvl, ft, id_, title, ref, name, nk = ws[i + 1:i + 9]
            kids, i = dec_trees(ws, i + 9, int(nk))
            res.append(T(tag=int(tag), level='D' if lvl == 'D' else int(lvl), foot=(ft in ('1', '3')), uni=(ft in ('2', '3')), id=dec_opt(id_), title=dec_opt(title),
                         ref=dec_opt(ref), name='' if name == '=' else name, kids=kids))
    return res, i


def enc_template(t):
    return ','.join(str(ord(c)) for c in t) if t else '-'


def make_line(gen, split, template, tops):
    ws = []
    for t in tops:
        enc_tree(t, ws)
    return '%s %d %s %d %s' % (gen, split, enc_template(template), len(tops), ' '.join(ws))


def parse_line(line):
    ws = line.split()
    gen, split, tmpl, n = ws[0], int(ws[1]), ws[2], int(ws[3])
    template = '' if tmpl == '-' else ''.join(chr(int(x)) for x in tmpl.split(','))
    tops, _ = dec_trees(ws, 4, n)
    return gen, split, template, tops


NUM_ALT = re.compile(r'([A-Za-z0-9_-]*)\$num(?:\((\d+)\))?')


def collision_pool(template):
    """labels/titles that collide with what the template itself produces: the static names (with and without extension),
    the first numbered names of the `$num` alternatives, and values that become equal after the forbidden characters
    are replaced"""
    pool = []
    flat = re.sub(r'\[[^\]]*\]?', ' ', template)
    for w in flat.split():
        if '$' not in w:
            pool += [w, w + '.html']
    for pre, width in NUM_ALT.findall(template):
        for k in (1, 2, 3):
            pool.append(pre + (('%%0%dd' % int(width)) % k if width else str(k)))
    pool += ['index', 'col:1', 'col-1', 'col.1', 'col 1', 'col:2', 'col-2']
    pool = [x for x in pool if x and re.match(r"^[A-Za-z0-9_:. -]+$", x)]
    return pool + LONG_VALUES + UNICODE_VALUES


# values longer than any "portable" name length that differ only near their end (a generator that cuts names must still
# keep them apart), as one word and as several words
LONG_WORD = 'Lng' + 'abcdefghij' * 7
LONG_PHRASE = 'Supercalifragilistic expialidocious ' * 3
LONG_VALUES = [LONG_WORD + '1', LONG_WORD + '2', LONG_PHRASE + 'One', LONG_PHRASE + 'Two']
# values with characters outside ASCII: precomposed / combining accents, and compatibility characters whose normal forms
# are forbidden ASCII characters (ellipsis -> '...', fullwidth colon / solidus / full stop / question mark, ligature fi)
UNICODE_VALUES = ['caf\u00e9', 'cafe\u0301', 'To-be-continued\u2026', 'a\uff1ab', 'c\uff0fd', 'e\uff0ef', 'wh\uff1f', 'of\ufb01ce',
                  '\u00dcber \u00e4\u00f6', '\u4e2d\u6587',
                  # characters whose *canonical* (NFC/NFD) form is another character (singleton decompositions): Greek question
                  # mark -> ';', Greek varia -> '`', Kelvin sign -> 'K', Ohm sign, Angstrom sign, Greek ano teleia -> middle dot
                  '\u03c4\u03b9\u037e', 'a\u1fefb', '\u212aelvin', '\u2126hm', '\u212bngstrom', 'x\u0387y']


class TreeGen:
    def __init__(self, rng, malformed=False, noblank=False, template=''):
        self.rng, self.tag, self.mark, self.malformed = rng, 0, 0, malformed
        self.pool = [x for x in collision_pool(template) if ' ' not in x]     # one word per field in the line protocol
        self.ids = 0
        self.noblank = noblank      # no blank titles (with $title(n) a blank title hits defect D12 of the generator, C15)

    def newtag(self):
        self.tag += 1
        return self.tag

    def text(self):
        self.mark += 1
        return T(m=self.mark)

    def inline(self, depth, in_foot=False):
        """text, inline element, footnote"""
        rng = self.rng
        r = rng.random()
        if r < 0.08:
            # a command with a unicode equivalent: a leaf; malformed: with children, a footnote or at a sectioning level
            u = T(tag=self.newtag(), level=1001, name=rng.choice(['S', 'ldots', 'dag']), uni=True)
            if self.malformed and rng.random() < 0.4:
                k = rng.randrange(3)
                if k == 0:
                    u.kids = [self.text()]
                elif k == 1:
                    u.level = rng.choice([0, 1, 2])
                else:
                    u.kids = [T(tag=self.newtag(), level=1001, foot=True, name='footnote', kids=[self.text()])]
                if rng.random() < 0.3:
                    u.foot = True             # a footnote with a unicode equivalent
            return u
        if r < 0.55 or depth <= 0:
            return self.text()
        if r < 0.8:
            return T(tag=self.newtag(), level=rng.choice([1001, 1001, 201]), name=rng.choice(['emph', 'textbf', 'quote']),
                     kids=[self.inline(depth - 1, in_foot) for _ in range(rng.randint(0, 2))])
        if in_foot and rng.random() >= (0.5 if self.malformed else 0.3):
            return self.text()      # otherwise: a footnote nested in a footnote
        return T(tag=self.newtag(), level=1001, foot=True, name='footnote',
                 kids=[self.inline(depth - 1, True) for _ in range(rng.randint(0, 2))])

    def par(self):
        rng = self.rng
        return T(tag=self.newtag(), level=101, name='par', kids=[self.inline(2) for _ in range(rng.randint(0, 3))])

    def attrs(self):
        rng = self.rng
        id_ = None
        if rng.random() < 0.4:
            self.ids += 1
            f = rng.choice(['sec:%d', 'l%d', 'a.b%d', 'x/y%d', 'dup'])
            id_ = f % self.ids if '%d' in f else f
            if rng.random() < 0.3:
                id_ = rng.choice(self.pool)          # collides with a static name / a numbered name / another label
        title = rng.choice([None, '', 'Title%d' % self.tag, 'A:b/%d' % self.tag, 'Intro'])
        if rng.random() < 0.15:
            title = rng.choice(self.pool)
        if self.noblank and title == '':
            title = 'Blank'
        ref = rng.choice([None, '', '%d' % rng.randint(1, 9), '1.%d' % rng.randint(1, 9)])
        return id_, title, ref

    def section(self, level, depth):
        rng = self.rng
        id_, title, ref = self.attrs()
        node = T(tag=self.newtag(), level=level, id=id_, title=title, ref=ref,
                 name=rng.choice(['section', 'chapter', 'part', 'subsection', 'paragraph']) if rng.random() < 0.1 else 'sec%s' % level)
        for _ in range(rng.randint(0, 2)):
            node.kids.append(self.par() if rng.random() < 0.8 else self.inline(1))
        if depth > 0:
            for _ in range(rng.randint(0, 3)):
                if self.malformed and rng.random() < 0.3:
                    sub = rng.choice([-2, -1, 0, 1, 2, 3, 50, 99, 100])
                else:
                    sub = level + rng.randint(1, 2) if isinstance(level, int) else rng.randint(-1, 2)
                    if sub > 6:
                        node.kids.append(self.par())
                        continue
                node.kids.append(self.section(sub, depth - 1))
                if rng.random() < 0.15:
                    node.kids.append(self.par())
        if rng.random() < (0.2 if self.malformed else 0.05) and node.kids:
            # a unit inside a footnote
            node.kids.append(T(tag=self.newtag(), level=1001, foot=True, name='footnote', kids=[self.section(rng.randint(0, 3), 0)]))
        return node

    def tops(self):
        rng = self.rng
        pre = [T(tag=self.newtag(), level=1001, name=n) for n in ['documentclass', 'usepackage'][:rng.randint(0, 2)]]
        root = self.section('D', rng.randint(0, 3))
        root.name, root.ref = 'document', None
        if root.title is None:
            root.title = 'Doc' if self.noblank else ''
        res = pre + [root]
        if rng.random() < 0.12:
            # two sections whose label / title agree in a long prefix (or are equal up to character normalisation)
            secs = []
            def walk(n):
                for k in n.kids:
                    if not k.is_text():
                        if isinstance(k.level, int) and k.level <= 6 and not k.foot and not k.uni:
                            secs.append(k)
                        walk(k)
            walk(root)
            if len(secs) >= 2:
                a, b = rng.sample(range(len(secs)), 2)
                v1, v2 = rng.choice([(LONG_WORD + '1', LONG_WORD + '2'), ('caf\u00e9', 'cafe\u0301'), ('a\uff1ab', 'a:b'),
                                     ('e\uff0ef', 'e.f'), ('q\u037er', 'q;r'), ('\u212aelvin', 'Kelvin')])
                if rng.random() < 0.6:
                    secs[a].id, secs[b].id = v1, v2
                else:
                    secs[a].title, secs[b].title = v1, v2
        if rng.random() < 0.2:
            res.append(self.text())
        if self.malformed:
            r = rng.random()
            if r < 0.15:
                res.append(self.section(rng.randint(-1, 3), 1))     # a unit outside the document environment
            elif r < 0.3:
                res.append(self.section('D', 1))                    # two document-level roots
            elif r < 0.4:
                res.remove(root)                                    # nothing at document level
                res.append(self.section(0, 1))
        return res


TEMPLATES = ['index [$id, sect$num(4)]', '[$id, $title, sect$num]', 'index [$title(2), s$num(3)]', 'a b c [$id, x$num(3)]',
             'index toc [$ref, n$num]', '  index [ $id , sect$num(4) ]  ', '[s$num]', 'index\t[$name$num]',
             'index', 'all$num', ' one ', '$jobname', 'a\tb']          # the last five name a single file (no blank, no `[`)
DYING = [('', 0), ('[$nosuchvar]', 0), ('index [$nosuchvar]', 1), ('[index]', 1)]


def single_name(template):
    t = template.strip()
    return ' ' not in t and '[' not in t


def count_doclevel(nodes):
    return sum((1 if n.level == 'D' else 0) + count_doclevel(n.kids) for n in nodes if not n.is_text())


def generate(ctx):
    rng = ctx.rng
    n = 700 if ctx.tier == 'quick' else 12000
    for i in range(n):
        malformed = rng.random() < 0.15
        template = rng.choice(TEMPLATES)
        tg = TreeGen(rng, malformed, '$title(' in template, template)
        tops = tg.tops()
        split = rng.randint(-10, 6)
        gen = 'cnt'
        if malformed:
            r = rng.random()
            if r < 0.3:
                template, k = rng.choice(DYING)
                gen = 'fail%d' % k
            elif r < 0.5:
                split = rng.choice([-11, 7, 50, 99, 100, 101, 150, 201, 1001, 2000])
        if gen == 'cnt' and single_name(template) and '$num' not in template and len(template.split()) == 1 and count_doclevel(tops) > 1:
            gen = 'fail1'       # a template naming a single file cannot name a second one: the real generator gives up
        yield Case('split', make_line(gen, split, template, tops), {'template': template})


def corpus():
    res = []
    def mk(gen, split, template, tops):
        res.append(Case('split', make_line(gen, split, template, tops), {'template': template}, 'corpus'))
    def sec(tag, level, kids, **kw):
        return T(tag=tag, level=level, name=kw.pop('name', 'sec'), kids=kids, **kw)
    def tx(m):
        return T(m=m)
    def fn(tag, kids):
        return T(tag=tag, level=1001, foot=True, name='footnote', kids=kids)
    doc = lambda kids: sec(1, 'D', kids, name='document', title='')
    basic = lambda: [doc([tx(1), fn(2, [tx(2)]), sec(3, 0, [tx(3), sec(4, 1, [tx(4), fn(5, [tx(5)]), sec(6, 2, [tx(6)], id='s:x')], title='A'),
                                                           sec(7, 1, [tx(7)])], title='One'), sec(8, 0, [tx(8)])])]
    for sp in (-10, -1, 0, 1, 2, 6):
        mk('cnt', sp, 'index [$id, sect$num(4)]', basic())
    mk('cnt', 2, 'index', basic())                      # single-name template
    mk('fail0', 2, '', basic())                          # dying generator
    mk('fail1', 2, 'index [$nosuchvar]', basic())
    mk('cnt', 150, 'index [$id, sect$num(4)]', [doc([sec(2, 101, [tx(1), fn(3, [tx(2)])]), sec(4, 1, [])])])   # par-level file nodes
    mk('cnt', 1, '[s$num]', [doc([fn(2, [tx(1), fn(3, [tx(2)])]), sec(4, 1, [fn(5, [sec(6, 1, [tx(3)])])])])])  # nested footnotes, unit in footnote
    mk('cnt', 1, '[s$num]', [sec(9, 1, [tx(9)]), doc([tx(1)]), tx(5)])                                          # unit outside the document
    return res


def nontrivial(o):
    return o.spec not in ('-', '') and ';' in o.spec


# ---------------------------------------------------------------- implementation side (stub templates)

_env = {}


def _setup():
    if _env:
        return _env
    import plasTeX
    from plasTeX import Command, TeXDocument
    from plasTeX.Base.LaTeX.Sectioning import SectionUtils
    import plasTeX.Renderers as R
    from plasTeX.Filenames import Filenames
    from plasTeX.Config import defaultConfig

    rec = []

    class RecFilenames(Filenames):
        """the real generator; records the bindings it is called with"""
        def __call__(self):
            rec.append(dict(self.variables))
            return Filenames.__call__(self)

    class StubRenderer(R.Renderer):
        fileExtension = '.html'

        def default(self, obj):
            if obj.c13foot:
                return 'm%d ' % obj.c13tag
            return 'o%d ' % obj.c13tag + str(obj) + 'c%d ' % obj.c13tag

    def layout(obj):
        s = 'L%d ' % obj.c13tag + str(obj)
        for f in obj.footnotes:
            s += 'F%d ' % f.c13tag + str(f) + 'f%d ' % f.c13tag
        return s + 'l%d ' % obj.c13tag

    classes = {}

    def cls(name, level):
        key = (name, level)
        if key not in classes:
            classes[key] = type(name or 'anon', (SectionUtils, Command), {'level': level, 'macroName': name or None})
        return classes[key]

    _env.update(dict(rec=rec, RecFilenames=RecFilenames, StubRenderer=StubRenderer, layout=layout, cls=cls, R=R, Filenames=Filenames,
                     TeXDocument=TeXDocument, defaultConfig=defaultConfig, Node=plasTeX.DOM.Node,
                     dir=tempfile.mkdtemp(prefix='verif-c13-')))
    import atexit
    atexit.register(shutil.rmtree, _env['dir'], True)
    return _env


def build_dom(env, doc, t, parent, foots, rng):
    Node = env['Node']
    if t.is_text():
        n = doc.createTextNode('t%d ' % t.m)
        parent.append(n)
        return
    level = -sys.maxsize if t.level == 'D' else t.level
    n = env['cls'](t.name, level)()
    n.ownerDocument = doc
    n.c13tag, n.c13foot = t.tag, t.foot
    if t.uni:
        n.str = 'u%d ' % t.tag       # as for \\S, \\ldots, ...: Renderable.__str__ prints this text instead of rendering the node
    if t.id is not None:
        n.id = t.id
    for attr, val in (('title', t.title), ('ref', t.ref)):
        if val is None:
            continue
        if rng.random() < 0.5:
            frag = doc.createDocumentFragment()
            frag.append(doc.createTextNode(val))
            setattr(n, attr, frag)
        else:
            setattr(n, attr, val)
    parent.append(n)
    for k in t.kids:
        build_dom(env, doc, k, n, foots, rng)
    if t.foot:
        n.mark = n
        foots.append(n)       # footnote.invoke appends after the argument was parsed


def clean_dir(d):
    for f in os.listdir(d):
        p = os.path.join(d, f)
        if os.path.isdir(p):
            shutil.rmtree(p, True)
        else:
            os.unlink(p)


def read_files(d):
    out = {}
    for root, dirs, files in os.walk(d):
        for f in files:
            p = os.path.relpath(os.path.join(root, f), d)
            if p.endswith('.paux'):
                continue
            out[p] = open(os.path.join(root, f), encoding='utf-8').read()
    return out


def o2s(v):
    if v is None:
        return '-'
    s = v if isinstance(v, str) else getattr(v, 'textContent', str(v))
    return '=' if s == '' else s


def names_ok(names, bad, template, ext):
    """distinct, and none of the forbidden characters (outside what the template / extension spell literally)"""
    if len(set(names)) != len(names):
        return 'duplicate names %r' % (names,)
    lit = set(template)
    for n in names:
        if n is None:
            return 'no name issued (None)'
        stem = n[:-len(ext)] if ext and n.endswith(ext) else n        # the extension the generator adds is spelled by the configuration
        for c in stem:
            if c in bad and c not in lit:
                return 'forbidden character %r in %r' % (c, n)
    return ''


def impl(case, aux):
    env = _setup()
    gen, split, template, tops = parse_line(case.line)
    rng = random.Random(len(case.line))
    config = env['defaultConfig']()
    config['files']['split-level'] = split
    config['files']['filename'] = template
    config['images']['imager'] = 'none'
    config['images']['vector-imager'] = 'none'
    doc = env['TeXDocument'](config=config)
    d = env['dir']
    clean_dir(d)
    doc.userdata['working-dir'] = d
    doc.userdata['jobname'] = 'job'
    foots = []
    for t in tops:
        build_dom(env, doc, t, doc, foots, rng)
    if foots:
        doc.userdata['footnotes'] = foots
    r = env['StubRenderer']()
    r['default-layout'] = env['layout']
    del env['rec'][:]
    cwd = os.getcwd()
    os.chdir(d)
    R = env['R']
    R.Filenames = env['RecFilenames']
    try:
        try:
            r.render(doc)
        except ValueError as e:
            if 'Filename could not be created' in str(e):
                return 'err:ValueError'
            return 'err:other:ValueError'
        except Exception as e:
            return 'err:other:' + type(e).__name__
        finally:
            R.Filenames = env['Filenames']
            os.chdir(cwd)
            Node = env['Node']
            if hasattr(Node, 'renderer'):           # render did not finish: undo what it mixed in
                try:
                    del Node.renderer
                    R.unmix(Node, R.Renderable)
                except Exception:
                    pass
        names = list(r.files.values())
        canon = {}
        for k, nm in enumerate(names):
            canon.setdefault(nm, 'f%d' % k)
        disk = read_files(d)
        files = sorted((canon.get(p, '?' + p), ' '.join(c.split())) for p, c in disk.items())
        reqs = ['%s,%s,%s,%s' % (o2s(v.get('id')), o2s(v.get('title')), o2s(v.get('ref')), o2s(v.get('name'))) for v in env['rec']]
        case.meta['names'] = names
        case.meta['names_problem'] = names_ok(names, DEFAULT_BAD, template.replace('$jobname', 'job'), '.html')
        return 'ok %s # %s' % (';'.join('%s=%s' % f for f in files), ' '.join(reqs))
    finally:
        clean_dir(d)


def spec_view(impl_str):
    """project the implementation's observation onto what the property prescribes: per file, layout tag and texts"""
    body = impl_str[3:].split(' # ')[0]
    res = []
    for part in body.split(';') if body else []:
        name, _, toks = part.partition('=')
        toks = toks.split()
        head = toks[0] if toks else ''
        texts = [t[1:] for t in toks if t.startswith('t')]
        res.append((name, head, texts))
    return sorted(res)


def spec_expected(spec):
    res = []
    if not spec:
        return res          # in the domain, no unit at all: no file
    for part in spec.split(';'):
        name, _, rest = part.partition('=')
        head, _, tx = rest.partition(':')
        b, _, f = tx.partition('|')
        res.append((name, head, b.split() + f.split()))
    return sorted(res)


def judge(o):
    o.corr_ok = (o.impl == o.model)
    o.prop_ok = True
    # the same rendering with the C15 model of Filenames as the name supply predicts the real names (aux[1])
    if len(o.aux) > 1 and o.aux[1] != '-':
        if o.aux[1] == 'err:ValueError':
            if o.impl != 'err:ValueError':
                o.corr_ok = False
                o.note = 'the Filenames model gives up, the implementation does not'
        else:
            predicted = [''.join(chr(int(x)) for x in w.split(',')) for w in o.aux[1].split()[1:]]
            if not o.impl.startswith('ok ') or o.case.meta.get('names') != predicted:
                o.corr_ok = False
                o.note = 'names %r differ from the names the Filenames model issues %r' % (o.case.meta.get('names'), predicted)
    if o.impl.startswith('ok '):
        prob = o.case.meta.get('names_problem')
        if prob:
            o.prop_ok = False
            o.note = prob
    if o.spec != '-':
        if not o.impl.startswith('ok ') or spec_view(o.impl) != spec_expected(o.spec):
            o.prop_ok = False
            o.note = o.note or 'files/texts differ from the prescription'


# ---------------------------------------------------------------- shrinking / search

def _variants(tops):
    """smaller forests: drop one child somewhere, or replace a node by its children"""
    import copy
    paths = []
    def walk(nodes, path):
        for i, n in enumerate(nodes):
            paths.append(path + [i])
            if not n.is_text():
                walk(n.kids, path + [i])
    walk(tops, [])
    for p in paths:
        for mode in ('drop', 'lift'):
            new = copy.deepcopy(tops)
            lst = new
            for i in p[:-1]:
                lst = lst[i].kids
            node = lst[p[-1]]
            if mode == 'drop':
                if len(p) == 1 and node.level == 'D':
                    continue
                del lst[p[-1]]
            else:
                if node.is_text() or node.level == 'D':
                    continue
                lst[p[-1]:p[-1] + 1] = node.kids
            yield new


def shrink(ctx, o, evaluate):
    if o.case.stream != 'split':
        return o
    best = o
    for _ in range(40):
        gen, split, template, tops = parse_line(best.case.line)
        cands = [Case('split', make_line(gen, split, template, v), dict(best.case.meta), 'shrink') for v in _variants(tops)]
        cands.sort(key=lambda c: len(c.line))
        nxt = None
        for i in range(0, len(cands), 50):
            for r in evaluate(cands[i:i + 50]):
                if not r.prop_ok:
                    nxt = r
                    break
            if nxt:
                break
        if nxt is None:
            break
        best = nxt
    return best


def search(ctx, evaluate, corr_bad):
    """proof/tie broken but no failing input in the main batch: shrinks of the disagreeing cases, a larger seeded batch of
    abstract trees, then documents, all against the Spec oracle"""
    rng = random.Random(ctx.seed + 7919)
    for o in corr_bad[:5]:
        gen, split, template, tops = parse_line(o.case.line)
        cands = [Case('split', make_line(gen, split, template, v), dict(o.case.meta), 'search') for v in _variants(tops)][:200]
        bad = [r for r in evaluate(cands) if not r.prop_ok]
        if bad:
            b = shrink(ctx, bad[0], evaluate)
            return Violation('implementation differs from the property oracle (found by search)', {'kind': 'failing-input', 'outcome': b.to_json()})
    cases = []
    for i in range(4000):
        template = rng.choice(TEMPLATES)
        tg = TreeGen(rng, False, '$title(' in template, template)
        cases.append(Case('split', make_line('cnt', rng.randint(-10, 6), template, tg.tops()), {'template': template}, 'search'))
    bad = [r for r in evaluate(cases) if not r.prop_ok]
    if bad:
        b = shrink(ctx, bad[0], evaluate)
        return Violation('implementation differs from the property oracle (found by search)', {'kind': 'failing-input', 'outcome': b.to_json()})
    collected = []
    viol, _ = doc_checks(ctx, random.Random(ctx.seed + 104729), 150, collect=collected)
    if not viol:
        viol, _ = xproc_checks(ctx, [e for e in collected if len(e['expected']) >= 2][:40])
    return viol[0] if viol else None


# ---------------------------------------------------------------- document level (doc13)

SECTION_CMDS = {-1: 'part', 0: 'chapter', 1: 'section', 2: 'subsection', 3: 'subsubsection', 4: 'paragraph', 5: 'subparagraph'}
ID_FORMS = ['sec:%d', 'l%d', 'a.b%d', 'x/y%d', 'q=%d?', 'Sec (%d)', 'k;%d,z', "it's%d", 'T%d', 'dup']
TITLE_FORMS = ['Title%d', 'Alpha: beta/%d', 'The Long Title Number %d Here', 'Q? (%d)', 'T%d e.g. x', 'Same']
DOC_TEMPLATES = ['index [$id, sect$num(4)]', 'index [$id, $title, sect$num]', 'index [$title(2), s$num(3)]', 'index [$title(1)-$num(2)]',
                 'index first second [$id, x$num(3)]', 'index [$ref-$num, n$num]', '[s$num]', 'index [$name$num]',
                 'index [sect$num(2)]', 'idx [$id-p, p$num(5)]',
                 'index', 'whole', 'all$num']          # the last three name a single file
BAD_SETTINGS = [(DEFAULT_BAD, '-'), (DEFAULT_BAD, '_'), (': /', '-'), (DEFAULT_BAD + 'T', 'x'), (DEFAULT_BAD, ''), ('/:;,.?=()\' ', '+')]
RENDERERS = [('HTML5', 'default'), ('XHTML', 'default'), ('HTML5', 'minimal'), ('XHTML', 'minimal'), ('XHTML', 'plain'), ('XHTML', 'python')]


class DocGen:
    """a LaTeX document together with its abstract tree"""

    def __init__(self, rng, template=''):
        self.rng, self.tag, self.mark, self.nsec = rng, 0, 0, 0
        self.pool = collision_pool(template)
        # now and then the first two units get labels / titles that agree in a long prefix, or that are equal up to
        # character normalisation
        self.fnotes = []       # earlier footnotes (LaTeX text, markers): some later footnotes repeat one word for word ("Ibid.")
        self.pair = None
        if rng.random() < 0.12:
            self.pair = (rng.choice(['title', 'label', 'both']),
                         rng.choice([(LONG_PHRASE + 'One', LONG_PHRASE + 'Two'), (LONG_WORD + '1', LONG_WORD + '2'),
                                     ('caf\u00e9', 'cafe\u0301'), ('To be continued\u2026', 'To be continued...'),
                                     ('\u03c4\u03b9 \u03b5\u03af\u03bd\u03b1\u03b9\u037e', 'a\u1fefb c'), ('\u212aelvin scale', 'Kelvin scale')]))

    def newtag(self):
        self.tag += 1
        return self.tag

    def body(self, node, lines):
        """0-3 paragraphs: marker words, inline markup, lists, footnotes"""
        rng = self.rng
        for _ in range(rng.choice([0, 1, 1, 2, 3])):
            words = []
            for _ in range(rng.randint(1, 3)):
                if self.mark > 2 and rng.random() < 0.06:
                    mk = rng.randint(1, self.mark)       # the same word again: text need not be unique to be kept
                else:
                    self.mark += 1
                    mk = self.mark
                w = 'MK%d' % mk
                node.kids.append(T(m=mk))
                r = rng.random()
                if r < 0.15:
                    w = '\\emph{%s}' % w
                elif r < 0.25:
                    w = '\\textbf{\\textit{%s}}' % w
                words.append(w)
                if rng.random() < 0.08:
                    # a command with a unicode equivalent (node.str): printed as that character, no template, no file
                    sym = rng.choice(['S', 'dag', 'ldots', 'P'])
                    node.kids.append(T(tag=self.newtag(), level=1001, name=sym, uni=True))
                    words.append('\\%s{}' % sym)
                if self.fnotes and rng.random() < 0.1:
                    # a footnote with exactly the wording of an earlier one: a footnote of its own all the same
                    text, marks = rng.choice(self.fnotes)
                    node.kids.append(T(tag=self.newtag(), level=1001, foot=True, name='footnote', kids=[T(m=x) for x in marks]))
                    words.append('\\footnote{%s}' % text)
                elif rng.random() < 0.25:
                    fk = []
                    fw = []
                    for j in range(rng.randint(1, 2)):
                        self.mark += 1
                        fk.append(T(m=self.mark))
                        fw.append('MK%d' % self.mark)
                        if j == 0 and rng.random() < 0.15:
                            # a footnote inside the footnote: a footnote of its own, listed before its host
                            self.mark += 1
                            fk.append(T(tag=self.newtag(), level=1001, foot=True, name='footnote', kids=[T(m=self.mark)]))
                            fw.append('\\footnote{MK%d}' % self.mark)
                    node.kids.append(T(tag=self.newtag(), level=1001, foot=True, name='footnote', kids=fk))
                    words.append('\\footnote{%s}' % ' '.join(fw))
                    if all(k.is_text() for k in fk):
                        self.fnotes.append((' '.join(fw), [k.m for k in fk]))
            r = rng.random()
            if r < 0.15:
                items = []
                for _ in range(rng.randint(1, 3)):
                    self.mark += 1
                    node.kids.append(T(m=self.mark))
                    items.append('\\item MK%d' % self.mark)
                lines.append(' '.join(words))
                env = rng.choice(['itemize', 'enumerate'])
                lines.append('\\begin{%s}\n%s\n\\end{%s}' % (env, '\n'.join(items), env))
            elif r < 0.25:
                lines.append('\\begin{quote}\n%s\n\\end{quote}' % ' '.join(words))
            else:
                lines.append(' '.join(words))
            lines.append('')

    def unit(self, level, depth, lines, maxlevel):
        rng = self.rng
        self.nsec += 1
        k = self.nsec
        title = rng.choice(TITLE_FORMS)
        title = title % k if '%d' in title else title
        if rng.random() < 0.12:
            title = rng.choice(self.pool)            # a title that collides with a name the template produces anyway
        forced_label = None
        if self.pair and k <= 2:
            if self.pair[0] in ('title', 'both'):
                title = self.pair[1][k - 1]
            if self.pair[0] in ('label', 'both'):
                forced_label = self.pair[1][k - 1]
        star = rng.random() < 0.1
        node = T(tag=self.newtag(), level=level, title=title, name=SECTION_CMDS[level])
        cmd = '\\%s%s{%s}' % (SECTION_CMDS[level], '*' if star else '', title)
        if rng.random() < 0.45 or forced_label:
            f = rng.choice(ID_FORMS)
            node.id = f % k if '%d' in f else f
            if rng.random() < 0.25:
                node.id = rng.choice(self.pool)      # a label that collides with a static / numbered name or another label
            if forced_label:
                node.id = forced_label
            cmd += '\\label{%s}' % node.id
        lines.append(cmd)
        self.body(node, lines)
        if depth > 0:
            prev = None
            for _ in range(rng.randint(0, 3)):
                sub = level + (1 if rng.random() < 0.8 else 2)
                if prev is not None and sub > prev:
                    sub = prev          # a deeper unit after a shallower sibling would nest inside that sibling
                if sub <= maxlevel:
                    node.kids.append(self.unit(sub, depth - 1, lines, maxlevel))
                    prev = sub
        return node

    def document(self):
        rng = self.rng
        cls = rng.choice(['article', 'book', 'report', 'article'])
        top = 1 if cls == 'article' else rng.choice([0, 0, -1])
        lines = ['\\documentclass{%s}' % cls]
        root = T(tag=self.newtag(), level='D', title='', name='document')
        if rng.random() < 0.5:
            lines.append('\\title{The Doc Title}')
            root.title = 'The Doc Title'
        lines.append('\\begin{document}')
        if rng.random() < 0.2:
            lines.append('\\tableofcontents')
        self.body(root, lines)
        for _ in range(rng.randint(0, 3)):
            root.kids.append(self.unit(top, rng.randint(0, 3), lines, 5))
        lines.append('\\end{document}')
        return '\n'.join(lines) + '\n', root


def abstract(t):
    """the tree as sent to the driver: titles/ids do not matter for the prescription (and may contain blanks)"""
    if t.is_text():
        return t
    return T(tag=t.tag, level=t.level, foot=t.foot, id=None, title='x', ref=None, name=t.name, kids=[abstract(k) for k in t.kids], uni=t.uni)


def render_doc(src, renderer, theme, split, template, bad, sub):
    """parse + render with the real renderer in a fresh temporary directory; returns (names in issue order, {name: content})"""
    from plasTeX.TeX import TeX
    from plasTeX import TeXDocument
    from plasTeX.Config import defaultConfig
    config = defaultConfig()
    if renderer == 'HTML5':
        from plasTeX.Renderers.HTML5 import Renderer
        from plasTeX.Renderers.HTML5.Config import addConfig
        addConfig(config)
    else:
        from plasTeX.Renderers.XHTML import Renderer
    config['general']['renderer'] = renderer
    config['general']['theme'] = theme
    config['files']['split-level'] = split
    config['files']['filename'] = template
    config['files']['bad-chars'] = bad.replace('%', '%%')      # option values are %-interpolated when read
    assert config['files']['bad-chars'] == bad
    config['files']['bad-chars-sub'] = sub
    config['images']['imager'] = 'none'
    config['images']['vector-imager'] = 'none'
    doc = TeXDocument(config=config)
    tex = TeX(doc)
    tex.disableLogging() if hasattr(tex, 'disableLogging') else None
    tex.input(src)
    tex.parse()
    d = tempfile.mkdtemp(prefix='verif-c13-doc-')
    doc.userdata['working-dir'] = d
    doc.userdata['jobname'] = 'job'
    cwd = os.getcwd()
    os.chdir(d)
    import plasTeX.Renderers as R
    from plasTeX.DOM import Node
    try:
        r = Renderer()
        r.render(doc)
        names = list(r.files.values())
        contents = {}
        for n in set(names):
            if n is not None and os.path.isfile(os.path.join(d, n)):
                contents[n] = open(os.path.join(d, n), encoding='utf-8', errors='replace').read()
        return names, contents, r.fileExtension
    finally:
        os.chdir(cwd)
        if hasattr(Node, 'renderer'):
            try:
                del Node.renderer
                R.unmix(Node, type(r).renderableClass)
            except Exception:
                pass
        shutil.rmtree(d, True)


MARK = re.compile(r'MK(\d+)(?![0-9])')


def check_doc(extra):
    """-> '' when the property holds on this document/configuration, else a description"""
    src, split, template, bad, sub = extra['tex'], extra['split'], extra['template'], extra['bad'], extra['sub']
    expected = extra['expected']            # per unit in document order: [body markers, footnote markers]
    try:
        names, contents, ext = render_doc(src, extra['renderer'], extra['theme'], split, template, bad, sub)
    except Exception as e:
        return 'rendering raised %s: %s' % (type(e).__name__, str(e)[:200])
    if len(names) != len(expected):
        return '%d files issued for %d units at or above the split level: %r' % (len(names), len(expected), names)
    prob = names_ok(names, bad, template.replace('$jobname', 'job'), ext)
    if prob:
        return prob
    for k, (n, (b, f)) in enumerate(zip(names, expected)):
        if n not in contents:
            return 'file %r of unit %d was not written' % (n, k)
        got = MARK.findall(contents[n])
        if got != [str(x) for x in b + f]:
            return 'file %r (unit %d): text markers %r, expected body %r then footnotes %r' % (n, k, got, b, f)
    try:
        names2, contents2, _ = render_doc(src, extra['renderer'], extra['theme'], split, template, bad, sub)
    except Exception as e:
        return 'second run raised %s' % type(e).__name__
    if names2 != names or {n: MARK.findall(c) for n, c in contents2.items()} != {n: MARK.findall(c) for n, c in contents.items()}:
        return 'two runs differ: %r vs %r' % (names, names2)
    return ''


def doc_corpus():
    """document-level witnesses of past findings (corpus/C13/*.json with an `extra` entry); they run first"""
    d = os.path.join(os.path.dirname(os.path.dirname(os.path.dirname(os.path.abspath(__file__)))), 'corpus', ID)
    res = []
    if os.path.isdir(d):
        for f in sorted(os.listdir(d)):
            if f.endswith('.json'):
                w = json.load(open(os.path.join(d, f)))
                if 'extra' in w:
                    res.append((f, w['extra']))
    return res


def doc_checks(ctx, rng, n, with_corpus=False, collect=None):
    viol, stats = [], {'evaluations': 0, 'distinct_nontrivial': 0, 'samples': [], 'renderers': {}, 'split_levels': {}, 'files_per_doc': {}}
    if with_corpus:
        for fname, extra in doc_corpus():
            stats['evaluations'] += 1
            msg = check_doc(extra)
            if msg:
                viol.append(Violation('doc13 (corpus %s): %s' % (fname, msg), {'kind': 'failing-input', 'extra': extra, 'observed': msg}))
        if viol:
            return viol, stats
    docs = []
    for i in range(n):
        template = rng.choice(DOC_TEMPLATES)
        dg = DocGen(rng, template)
        src, root = dg.document()
        split = rng.randint(-10, 6) if rng.random() < 0.5 else rng.randint(-1, 4)
        bad, sub = rng.choice(BAD_SETTINGS) if rng.random() < 0.5 else BAD_SETTINGS[0]
        renderer, theme = RENDERERS[i % len(RENDERERS)]
        docs.append((src, root, split, template, bad, sub, renderer, theme))
    cases = [Case('split', make_line('cnt', d[2], d[3], [abstract(d[1])]), None, 'doc13') for d in docs]
    fields = run_driver(ID, cases)
    for d, f in zip(docs, fields):
        src, root, split, template, bad, sub, renderer, theme = d
        if len(f) < 2 or f[1] == '-':
            raise RuntimeError('doc13: generated document outside the spec domain: ' + repr(f))
        expected = []
        for part in f[1].split(';'):
            tx = part.partition(':')[2]
            b, _, fo = tx.partition('|')
            expected.append([[int(x) for x in b.split()], [int(x) for x in fo.split()]])
        extra = {'tex': src, 'split': split, 'template': template, 'bad': bad, 'sub': sub, 'renderer': renderer, 'theme': theme,
                 'expected': expected}
        stats['evaluations'] += 1
        stats['renderers'][renderer + '/' + theme] = stats['renderers'].get(renderer + '/' + theme, 0) + 1
        stats['split_levels'][str(split)] = stats['split_levels'].get(str(split), 0) + 1
        nf = str(min(len(expected), 10))
        stats['files_per_doc'][nf] = stats['files_per_doc'].get(nf, 0) + 1
        if len(expected) >= 2:
            stats['distinct_nontrivial'] += 1
        if len(stats['samples']) < 2:
            stats['samples'].append({'stream': 'doc13', 'split': split, 'template': template, 'renderer': renderer, 'units': len(expected),
                                     'tex': src[:300]})
        if collect is not None:
            collect.append(extra)
        msg = check_doc(extra)
        if msg:
            viol.append(Violation('doc13: ' + msg, {'kind': 'failing-input', 'extra': shrink_doc(extra), 'observed': msg}))
            if len(viol) >= 3:
                break
    return viol, stats


# ---------------------------------------------------------------- the same on every run: separate interpreter processes

XPROC_STANDARD_TEX = r'''\documentclass{book}
\begin{document}
MK1
\chapter{Alpha Beta}\label{ch:alpha}
MK2
\section{Inner One}
MK3
\section{Inner Two}\label{sec:two}
MK4 \footnote{MK5}
\chapter{Gamma}
MK6
\end{document}
'''
XPROC_TEMPLATES = ['index [$id, sect$num(4)]', 'index [$id, $title(2), file$num(3)]', '[$title, $id, s$num]', 'index toc [$ref-x, $id, n$num]']


def worker():
    """child process: render the documents given on stdin (JSON list of extras); print names and markers per file"""
    import framework  # noqa: F401  (puts the repository on sys.path)
    logging.disable(logging.CRITICAL)
    extras = json.load(sys.stdin)
    res = []
    for e in extras:
        try:
            names, contents, _ = render_doc(e['tex'], e['renderer'], e['theme'], e['split'], e['template'], e['bad'], e['sub'])
            res.append({'names': names, 'marks': {n: MARK.findall(c) for n, c in contents.items()}})
        except Exception as ex:
            res.append({'error': type(ex).__name__})
    sys.stdout.write(json.dumps(res))


def run_workers(extras, seeds):
    """one fresh interpreter per hash seed (string hashing is randomised per process), all running the same documents"""
    import subprocess
    from framework import HARNESS, REPO
    env0 = dict(os.environ, VERIF_REPO=REPO, PYTHONPATH=HARNESS + os.pathsep + os.environ.get('PYTHONPATH', ''), PYTHONDONTWRITEBYTECODE='1')
    procs = []
    payload = json.dumps([{k: e[k] for k in ('tex', 'renderer', 'theme', 'split', 'template', 'bad', 'sub')} for e in extras])
    for sd in seeds:
        pr = subprocess.Popen([sys.executable, '-c', 'import props.c13 as p; p.worker()'], env=dict(env0, PYTHONHASHSEED=str(sd)),
                              stdin=subprocess.PIPE, stdout=subprocess.PIPE, stderr=subprocess.PIPE, text=True)
        procs.append(pr)
    outs = []
    for pr in procs:          # started together, collected in turn
        out, err = pr.communicate(payload, timeout=1800)
        if pr.returncode != 0:
            raise RuntimeError('doc13 worker failed: ' + err[-800:])
        outs.append(json.loads(out))
    return outs


def xproc_compare(extra, results, seeds):
    """'' when all runs agree, else a description"""
    first = results[0]
    for sd, r in zip(seeds[1:], results[1:]):
        if r != first:
            return ('runs in separate interpreter processes differ (PYTHONHASHSEED=%s: %r; PYTHONHASHSEED=%s: %r)'
                    % (seeds[0], first.get('names', first), sd, r.get('names', r)))
    return ''


def xproc_checks(ctx, extras):
    """the determinism clause across processes: the same documents in fresh interpreters with different hash seeds"""
    seeds = [0, 1, 2, 3] if ctx.tier == 'quick' else [0, 1, 2, 3, 4, 5, 6, 7]
    std = [{'tex': XPROC_STANDARD_TEX, 'split': 1, 'template': t, 'bad': DEFAULT_BAD, 'sub': '-', 'renderer': 'XHTML', 'theme': 'default',
            'expected': None} for t in XPROC_TEMPLATES]
    extras = std + extras
    outs = run_workers(extras, seeds)
    viol = []
    for i, e in enumerate(extras):
        msg = xproc_compare(e, [o[i] for o in outs], seeds)
        if msg:
            x = dict(e, xproc=seeds)
            viol.append(Violation('doc13: ' + msg, {'kind': 'failing-input', 'extra': x, 'observed': msg}))
            if len(viol) >= 3:
                break
    return viol, len(extras) * len(seeds)


# ---------------------------------------------------------------- the configuration as the user gives it: command line client

CLI_ROUTES = ['ini', 'switches', 'ini+switches', 'two-ini']
DECOY = {'split': 5, 'template': 'decoy [$id, d$num(2)]', 'bad': ': /', 'sub': '_'}


def _ini_ok(v):
    """a value an INI file can carry unchanged (configparser strips blanks around a value)"""
    return v == v.strip() and '\n' not in v


def cli_plan(e, route):
    """how the configuration of `e` reaches `plasTeX.client.main`: ([(ini file name, text)], argv switches).
    The effective configuration must be: command line switch > later --config file > earlier --config file > default."""
    esc = lambda v: v.replace('%', '%%')          # option values are %-interpolated when read
    real = {'split': str(e['split']), 'template': esc(e['template']), 'bad': esc(e['bad']), 'sub': esc(e['sub'])}
    decoy = {'split': str(DECOY['split']), 'template': DECOY['template'], 'bad': DECOY['bad'], 'sub': DECOY['sub']}
    keys = {'split': ('split-level', '--split-level'), 'template': ('filename', '--filename'),
            'bad': ('bad-chars', '--bad-filename-chars'), 'sub': ('bad-chars-sub', '--bad-filename-chars-sub')}

    def ini(vals, with_general=True):
        lines = ['[files]'] + ['%s = %s' % (keys[k][0], v) for k, v in vals.items()]
        if with_general:
            lines += ['[general]', 'renderer = %s' % e['renderer'], 'theme = %s' % e['theme'],
                      '[images]', 'imager = none', 'vector-imager = none']
        return '\n'.join(lines) + '\n'

    general_sw = ['--renderer=' + e['renderer'], '--theme=' + e['theme'], '--imager=none', '--vector-imager=none']
    sw = lambda vals: ['%s=%s' % (keys[k][1], v) for k, v in vals.items()]
    in_ini = {k: v for k, v in real.items() if _ini_ok(v)}
    not_in_ini = {k: v for k, v in real.items() if k not in in_ini}
    if route == 'ini':
        return [('a.ini', ini(in_ini))], sw(not_in_ini)
    if route == 'switches':
        return [], general_sw + sw(real)
    if route == 'ini+switches':        # the file holds other values for what the command line sets
        half = dict(list(real.items())[:2])
        rest = {k: v for k, v in real.items() if k not in half}
        file_vals = dict({k: decoy[k] for k in half}, **{k: v for k, v in rest.items() if _ini_ok(v)})
        return [('a.ini', ini(file_vals))], sw(half) + sw({k: v for k, v in rest.items() if not _ini_ok(v)})
    if route == 'two-ini':             # a later file overrides an earlier one
        return [('a.ini', ini(decoy)), ('b.ini', ini(in_ini, with_general=False))], sw(not_in_ini)
    raise ValueError(route)


def cli_worker():
    """child process: each document through `plasTeX.client.main` (configuration by files / switches) and, for comparison,
    through the programmatic route of doc13"""
    import framework  # noqa: F401
    import io, contextlib
    logging.disable(logging.CRITICAL)
    extras = json.load(sys.stdin)
    res = []
    home = os.getcwd()
    for e in extras:
        work = tempfile.mkdtemp(prefix='verif-c13-cli-')
        try:
            files, switches = cli_plan(e, e['cli'])
            open(os.path.join(work, 'job.tex'), 'w', encoding='utf-8').write(e['tex'])
            argv = []
            for name, text in files:
                open(os.path.join(work, name), 'w', encoding='utf-8').write(text)
                argv += ['--config', name]
            argv += ['--no-theme-extras', '--dir', 'out'] + switches + ['job.tex']
            os.chdir(work)
            entry = {'argv': argv, 'ini': files}
            try:
                from plasTeX.client import main
                with contextlib.redirect_stdout(io.StringIO()), contextlib.redirect_stderr(io.StringIO()):
                    main(argv)
                marks = {}
                out = os.path.join(work, 'out')
                for root, _, fs in os.walk(out):
                    for f in fs:
                        if not f.endswith(('.paux', '.log', '.css', '.js', '.png', '.svg', '.gif')):   # names need not end in .html
                            marks[os.path.relpath(os.path.join(root, f), out)] = MARK.findall(
                                open(os.path.join(root, f), encoding='utf-8', errors='replace').read())
                entry['cli'] = marks
            except BaseException as ex:      # argparse exits with SystemExit
                entry['cli_error'] = '%s: %s' % (type(ex).__name__, str(ex)[:200])
            finally:
                os.chdir(home)
                from plasTeX.DOM import Node
                import plasTeX.Renderers as R
                if hasattr(Node, 'renderer'):
                    try:
                        del Node.renderer
                        R.unmix(Node, R.Renderable)
                    except Exception:
                        pass
            try:
                names, contents, _ = render_doc(e['tex'], e['renderer'], e['theme'], e['split'], e['template'], e['bad'], e['sub'])
                entry['api'] = {n: MARK.findall(c) for n, c in contents.items()}
            except Exception as ex:
                entry['api_error'] = type(ex).__name__
            res.append(entry)
        finally:
            os.chdir(home)
            shutil.rmtree(work, True)
    sys.stdout.write(json.dumps(res))


def run_cli_worker(extras):
    import subprocess
    from framework import HARNESS, REPO
    env = dict(os.environ, VERIF_REPO=REPO, PYTHONPATH=HARNESS + os.pathsep + os.environ.get('PYTHONPATH', ''), PYTHONDONTWRITEBYTECODE='1')
    keys = ('tex', 'renderer', 'theme', 'split', 'template', 'bad', 'sub', 'cli')
    pr = subprocess.run([sys.executable, '-c', 'import props.c13 as p; p.cli_worker()'], env=env,
                        input=json.dumps([{k: e[k] for k in keys} for e in extras]), stdout=subprocess.PIPE, stderr=subprocess.PIPE,
                        text=True, timeout=1800)
    if pr.returncode != 0:
        raise RuntimeError('doc13 cli worker failed: ' + pr.stderr[-800:])
    return json.loads(pr.stdout)


def cli_compare(e, r):
    """'' when the command line client, configured by files/switches, produced what the configuration prescribes"""
    how = 'plastex %s (config files: %s)' % (' '.join(r['argv']), '; '.join('%s = %r' % (n, t) for n, t in r['ini']))
    if 'cli_error' in r:
        return '%s raised %s' % (how, r['cli_error'])
    if e.get('expected') is not None:
        want = sorted(tuple(str(x) for x in b + f) for b, f in e['expected'])
        got = sorted(tuple(v) for v in r['cli'].values())
        if got != want:
            return ('%s: files %r hold text markers that do not follow split level %d / template %r: expected per file %r'
                    % (how, r['cli'], e['split'], e['template'], want))
    if 'api' in r and r['cli'] != r['api']:
        return ('%s: files and text markers %r differ from the same configuration (split level %d, template %r, bad chars %r -> %r) '
                'set on the configuration object: %r' % (how, r['cli'], e['split'], e['template'], e['bad'], e['sub'], r['api']))
    return ''


def cli_checks(ctx, extras):
    """split level / template / forbidden characters as a user gives them: --config files and command line switches"""
    std = [{'tex': XPROC_STANDARD_TEX, 'split': sp, 'template': t, 'bad': DEFAULT_BAD, 'sub': '-', 'renderer': 'XHTML', 'theme': 'default',
            'expected': None} for sp, t in ((0, 'start [$title(1), unit$num(2)]'), (1, 'index [$id, sect$num(4)]'), (-10, 'whole'), (2, '[s$num(3)]'))]
    cases = [dict(e, cli=CLI_ROUTES[i % len(CLI_ROUTES)]) for i, e in enumerate(std + extras)]
    outs = run_cli_worker(cases)
    viol = []
    for e, r in zip(cases, outs):
        msg = cli_compare(e, r)
        if msg:
            viol.append(Violation('doc13: ' + msg, {'kind': 'failing-input', 'extra': e, 'observed': msg}))
            if len(viol) >= 3:
                break
    return viol, len(cases)


def shrink_doc(extra):
    """drop lines of the document while the same kind of failure stays (expected is recomputed from the abstract tree, so only
    configuration shrinking is attempted here: keep it simple and sound)"""
    return extra


def extra_checks(ctx):
    n = 110 if ctx.tier == 'quick' else 1200
    collected = []
    viol, stats = doc_checks(ctx, ctx.rng, n, with_corpus=True, collect=collected)
    if not viol:
        # the same on every run: a sample of the documents again, in fresh interpreter processes with different hash seeds
        k = 24 if ctx.tier == 'quick' else 160
        sample = [e for e in collected if len(e['expected']) >= 2][:k]
        v2, evals = xproc_checks(ctx, sample)
        stats['evaluations'] += evals
        stats['separate_process_runs'] = evals
        viol += v2
    if not viol:
        # the configuration as a user gives it: through the command line client, by --config files and switches
        k = 12 if ctx.tier == 'quick' else 120
        v3, evals = cli_checks(ctx, [e for e in collected if len(e['expected']) >= 2][:k])
        stats['evaluations'] += evals
        stats['command_line_client_runs'] = evals
        viol += v3
    return viol, stats


def replay_extra(ctx, extra):
    if extra.get('cli'):
        return bool(cli_compare(extra, run_cli_worker([extra])[0]))
    if extra.get('xproc'):
        seeds = list(extra['xproc'])
        outs = run_workers([extra], seeds)
        return bool(xproc_compare(extra, [o[0] for o in outs], seeds))
    return bool(check_doc(extra))
