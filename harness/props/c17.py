"""C17 - a document's result does not depend on what was processed before it.

streams (through the Lean driver)
  gstate : histories `A1 ; .. ; Ak ; B` of event documents, started from the initial class-level state.
           The events are spelled as LaTeX and run through the *real* interpreter in this process
           (`for tok in TeX(doc)`); observation per document = visible token trace + snapshot of every
           listed class attribute after the document.  model = Model.GlobalState.process under the variant
           the code currently follows, spec = every document as if alone in a fresh interpreter and the
           initial snapshot after it (property oracle).
  gleak  : the same, but started from an arbitrary (synthetic) class-level state that the harness
           writes into the class attributes, and with every leaking event allowed: model only.
           Registers of all four families (dimen, integer, glue, math glue) are assigned from literals and
           copied from other registers (`\\thinmuskip=\\medmuskip`), and read as operands of number/dimen/glue
           arguments, so every reader function's register branch runs.
  ccache : the per-class caches '@locals' / '@arguments': families of real Macro classes (a class, classes
           derived from it, contributing bases, siblings) taken from the live class hierarchy; the caches of the
           family are cleared (fresh interpreter), then `locals()` / `arguments` are called on real instances in a
           generated order (bases first, derived first, random, repeated).  model = Model.ClassCache.lookups on the
           extracted hierarchy, spec = the uncached computation for each class.
  gread  : histories in which EARLIER documents assign registers / define column types (the two data still kept on
           classes) and later documents read none of them: theorem isolation_partial_reads says every document then
           gives the trace it gives alone; after each document only the fields written so far may differ.
  holders: the per-document state holders (TeXDocument/Context/TeX/configuration) of two real documents: the graph of
           mutable objects reachable from each (extracted by walking the objects) goes to the driver, which computes the
           objects reachable from both (Model.Holders); the implementation side mutates every object reachable from one
           document and looks for the marks in everything reachable from the other.  spec = nothing shared.
  (every gstate/gleak/gread case also compares sys.path, the working directory and TEXINPUTS before/after)
document level (extra_checks, stream `pair`)
  generated LaTeX documents A1..Ak;B (k<=4) processed in ONE fresh python subprocess; B (and every Ai)
  also processed ALONE in its own fresh subprocess; three entry points: TeX.input/parse, the same plus Renderer.render,
  and plasTeX.Compile.run on a file (what the `plastex` command calls); documents are projects (main.tex plus the files it reads by
  relative name: \\input files, a local .sty, an image, main.aux/main.bbl for natbib, the same names in every project); around EVERY document
  every data attribute of every plasTeX class and every plasTeX module global is snapshotted: none may change (class_state);
  vocabulary sweep: every built-in command/environment (with arguments fitting its signature) once in its own document, the same snapshot
  around it (a sample of 220 in the quick tier, all ~1150 in the thorough tier); documents also contain TeX conditionals and switch setters
  (\\ifpdf/\\pdftrue/\\pdffalse, \\newif switches, ifthen booleans, \\ifx/\\ifnum/\\ifdim/\\ifcase/\\ifmmode); canonicalised toXML() (generated ids renumbered),
  rendered HTML5 files for a part of the histories, and the class-attribute snapshot are compared.
"""
import os, sys, re, json, logging, subprocess, tempfile, shutil, random as _random
import extract
from framework import Case, Violation, REPO, HARNESS, VERIF

ID = 'C17'
LEAN_MODULE = 'PlasVerif.Properties.C17'
LEVEL_TEXT = ('Lean 4 theorems over a statement-by-statement model of every interpreter-wide (class-level) datum of plasTeX '
              '(ParameterCommand.enabled/_enablelevel, MathShift.inEnv incl. BoxCommand.parse, List.depth, Begin/EndMath.disableMath, '
              'register values, the index/bibliography level patched by article.ProcessOptions, ColumnType.columnTypes, idgen): '
              'isolation / state_restored / repeatable hold for EVERY history and document of the event grammar (unbounded length, '
              'documents may end inside math, boxes or lists) for the repaired variant, and for the current code under the explicit '
              'hypotheses "no earlier document assigns a register, loads article, or defines a column type" (the three recorded known '
              'findings, each with a kernel-checked counterexample); the pinned code has kernel-checked counterexamples for D5, D6a, D6b. '
              'isolation_partial_reads is the largest fragment for the current code: whatever the history does, B is isolated if it reads no '
              'register and tests no column type that the history wrote (state_restored_except_written: nothing else ever differs); '
              'readers_agree_with_balancedArg ties the "an argument read is balanced" abstraction to the regenerated control-flow skeletons of the '
              'seven reader functions; holders_isolated: documents whose holders share no mutable object cannot influence each other. '
              'class_cache_transparent proves that the per-class caches @locals/@arguments (class-level state that is never reset) cannot be '
              'observed: after any history of lookups every class gets exactly its uncached table (counterexample for a cache read by attribute lookup). '
              'The model is tied to the code by differential execution from arbitrary class-level states, and the document-level '
              'clause (toXML and rendered files of B after A1..Ak vs B alone in a fresh interpreter subprocess) is carried by the pair stream.')
LEVEL_NOTE = ('Trusted: Lean kernel, harness/extract.py (class defaults read at import), the correspondence harness and its generators, '
              'CPython. Modelled not verified: sys.modules/package import caching, logging configuration, os.environ juggling in kpsewhich, '
              'the renderer internals (observed only through the rendered files of the pair stream).')
TECHNIQUE = 'Lean 4 proof (invariant over event folds, per-variant frame lemmas) + regenerated class defaults + differential correspondence + fresh-subprocess pair oracle'
TRUSTED = ['the class-state differ summarises containers to depth 3 and other objects by their class: a change deeper inside an object stored on a '
           'class is only seen through the results of later documents',
           'Model.Holders.reachList (the executable reachability the driver uses) is not proved equal to the inductive Reach of the theorem; '
           'the holders stream compares it with the observed interference on real object graphs',
           'toXML()/HTML5 rendering equality of real documents is carried by the pair stream (subprocess oracle), not by a theorem',
           'the list of class-level attributes was established by reading the code; an attribute outside it is only seen by the pair stream']
ASSUMPTIONS = ['documents of the history are processed to completion (no exception escapes parse)',
               'one interpreter processes documents sequentially (no threads)']
RULE = ('gstate/gleak: seeded histories of 1-5 event documents (structured math/box/list nesting, ~30% truncated so that they end inside '
        'math, a box or a list, ~15% malformed: stray closers, items outside lists); non-trivial = the history has >= 2 documents and an '
        'earlier document contains a state-touching event (math shift, box, list, argument, ifthen, class); distinct = distinct driver line. '
        'gread: 2-5 documents, 70% of them with 1-2 inserted register assignments/copies/column definitions, reads of dirty data filtered out; '
        'holders: pairs of event documents, each processed or fresh (modes pp pf fp ff), object graphs to depth 7; non-trivial = not both fresh. '
        'ccache: seeded families of <= 8 related real classes and 2-7 lookups; non-trivial = at least two different tables in the answers. '
        'pair: generated LaTeX documents (sections, math, lists, the array/tabular/tabular*/longtable, eqnarray/eqnarray*/amsmath, bibliography and '
        'float environment families, references incl. forward ones); non-trivial = history of >= 1 earlier documents with B containing math, lists or tables')
EXHAUSTIVE = {}
CASE_TIMEOUT = 30

logging.disable(logging.CRITICAL)

# modelled registers of the four families: d = dimen, n = integer parameter, g = glue, m = math glue
REGS = ['parindent', 'maxdepth', 'overfullrule', 'hoffset', 'tolerance', 'pretolerance', 'parskip', 'topskip', 'thinmuskip', 'medmuskip']
FAM = 'ddddnnggmm'
FAMILIES = [[i for i, f in enumerate(FAM) if f == c] for c in 'dngm']
UNIT = {'d': 'pt', 'n': '', 'g': 'pt', 'm': 'mu'}
SKIPREGS = [r for r, f in zip(REGS, FAM) if f in 'dg']
PKGDIR = os.path.join(HARNESS, 'c17pkg')
ARG_SRC = {'number': '\\magstep 2\\relax', 'dimen': '\\vskip 3pt\\relax', 'numreg': '\\magstep\\pretolerance\\relax',
           'dimenreg': '\\vskip\\maxdepth\\relax', 'gluereg': '\\hskip\\topskip\\relax', 'tok': '\\let\\vfa=b', 'args': '\\def\\vfb#1{x}',
           'any': '\\openout\\vfc=bar ', 'optnone': '\\linebreak', 'normal': '\\textbf{}'}
# spellings of literal quantities: every unit (also `true` units, with and without blanks), signs, decimals, stretch and shrink
DIMEN_SP = ['3pt', '3truept', '2truecm', '1truein', '1.5em', '2ex', '3 true mm', '-.5pc', '1bp', '12dd', '1cc', '65536sp', '+ 2pt', '0.75in',
            '1 truepc', '-1truein', '2 cm', '1,5mm']
GLUE_SP = ['3pt', '2truecm plus 1fil', '1truein minus 2truept', '3pt plus 1fill minus 1filll', '2em plus 3pt', '1truemm plus 1truemm minus 1 true sp',
           '0pt plus 1fil', '-1truein']
ASSIGN_SP = {'d': ['%dpt', '%dtruept', '%d.0pt', '%d truept', '%d.pt'], 'n': ['%d'], 'g': ['%dpt', '%dtruept', '%dpt plus 1fil', '%dtruept plus 2truept minus 1truept'],
             'm': ['%dmu', '%dmu plus 1mu']}


def spelled(kind, k):
    t = DIMEN_SP if kind == 'dimen' else GLUE_SP
    return t[int(k) % len(t)]


ARG_EL = {'magstep': 'number', 'vskip': 'dimen', 'let': 'tok', 'def': 'args', 'openout': 'any', 'linebreak': 'optnone', 'textbf': 'normal'}

# ---------------------------------------------------------------- the class-level attributes

_K = {}


def K():
    if not _K:
        import plasTeX
        from plasTeX import ParameterCommand, Command
        from plasTeX.Base.TeX.Primitives import MathShift
        from plasTeX.Base.LaTeX.Lists import List
        from plasTeX.Base.LaTeX.Math import BeginMath, EndMath
        from plasTeX.Base.LaTeX.Index import theindex, printindex
        from plasTeX.Base.LaTeX.Bibliography import bibliography
        from plasTeX.Base.LaTeX.Arrays import ColumnType
        from plasTeX.Base.TeX import Parameters
        _K.update(plasTeX=plasTeX, PC=ParameterCommand, Command=Command, MathShift=MathShift, List=List, BeginMath=BeginMath,
                  EndMath=EndMath, idx=[theindex, printindex, bibliography], ColumnType=ColumnType,
                  regs=[getattr(Parameters, r) for r in REGS])
        _K['idx_init'] = [(c.level, c.counter) for c in _K['idx']]
        _K['cols_init'] = dict(ColumnType.columnTypes)
        _K['init'] = read_state()
        _K['proc0'] = (list(sys.path), os.getcwd(), os.environ.get('TEXINPUTS'))
        _K['reg_init'] = [c.value for c in _K['regs']]
    return _K


def _pt(v):
    from plasTeX import dimen
    f = float(dimen(v)) / 65536.0
    return int(round(f))


def _val(v, fam):
    """natural size of a register value as an integer (pt, plain number, or mu)"""
    if fam in 'dg':
        return _pt(v)
    return int(round(float(v)))


def _mk(n, fam):
    from plasTeX import dimen, glue, muglue, count
    return {'d': lambda: dimen('%dpt' % n), 'n': lambda: count(n), 'g': lambda: glue('%dpt' % n), 'm': lambda: muglue('%dmu' % n)}[fam]()


def read_state():
    k = _K
    env = []
    for x in reversed(getattr(k['MathShift'], 'inEnv', [])):      # top first
        env.append('n' if x is None else ('m' if x.nodeName == 'math' else 'd' if x.nodeName == 'displaymath' else '?'))
    sec = [(c.level == k['Command'].SECTION_LEVEL and c.counter == 'section') for c in k['idx']]
    chap = [(c.level == k['Command'].CHAPTER_LEVEL and c.counter == 'chapter') for c in k['idx']]
    ix = '1' if all(sec) else '0' if all(chap) else 'mixed'
    cols = sorted(ord(n) if len(n) == 1 else 0 for n in k['ColumnType'].columnTypes if n not in k.get('cols_init', ()))
    return {'en': int(bool(k['PC'].enabled)), 'lv': int(k['PC']._enablelevel), 'db': int(bool(k['BeginMath'].disableMath)),
            'de': int(bool(k['EndMath'].disableMath)), 'env': ''.join(env) or '-', 'dp': int(getattr(k['List'], 'depth', 0)),
            'regs': ','.join(str(_val(c.value, f)) for c, f in zip(k['regs'], FAM)), 'ix': ix, 'cols': ','.join(map(str, cols)) or '-'}


def proc_state(cwd=None):
    """process-level state a document must leave alone: module search path, working directory, TEXINPUTS"""
    path0, cwd0, ti0 = K()['proc0']
    cwd0 = cwd or cwd0
    extra = [x for x in sys.path if x not in path0]
    return 'sp=%d cwd=%d ti=%d' % (len(extra), int(os.getcwd() != cwd0), int(os.environ.get('TEXINPUTS') != ti0))


PROC0 = 'sp=0 cwd=0 ti=0'


def snap_str(s):
    return 'en=%(en)s lv=%(lv)s db=%(db)s de=%(de)s env=%(env)s dp=%(dp)s regs=%(regs)s ix=%(ix)s cols=%(cols)s' % s


def set_state(words):
    """write a class-level state into the class attributes; `words` = ['I'] or the S-form of the driver line"""
    k = K()
    from plasTeX import dimen, TeXDocument
    if words == ['I']:
        en, lv, db, de, dp, ix, env, regs, cols = 1, 0, 0, 0, 0, None, '', None, []
    else:
        _, en, lv, db, de, dp, ix, e, r, c = words
        en, lv, db, de, dp, ix = int(en), int(lv), int(db), int(de), int(dp), int(ix)
        env = '' if e[1:] == '-' else e[1:]
        regs = [int(x) for x in r[1:].split(',')]
        cols = [] if c[1:] == '-' else [int(x) for x in c[1:].split(',')]
    k['PC'].enabled, k['PC']._enablelevel = bool(en), lv
    k['BeginMath'].disableMath, k['EndMath'].disableMath = bool(db), bool(de)
    if 'scratch' not in k:
        k['scratch'] = TeXDocument()
    mk = {'n': lambda: None, 'm': lambda: k['scratch'].createElement('math'), 'd': lambda: k['scratch'].createElement('displaymath')}
    if hasattr(k['MathShift'], 'inEnv') or env:
        k['MathShift'].inEnv = [mk[ch]() for ch in reversed(env)]
    if hasattr(k['List'], 'depth') or dp:
        k['List'].depth = dp
    for i, c in enumerate(k['regs']):
        c.value = k['reg_init'][i] if regs is None else _mk(regs[i], FAM[i])
    for c, (lvl, cnt) in zip(k['idx'], k['idx_init']):
        if ix:
            c.level, c.counter = k['Command'].SECTION_LEVEL, 'section'
        elif ix is None:
            c.level, c.counter = lvl, cnt
        else:
            c.level, c.counter = k['Command'].CHAPTER_LEVEL, 'chapter'
    ct = k['ColumnType']
    for n in list(ct.columnTypes):
        if n not in k['cols_init']:
            del ct.columnTypes[n]
    for n in cols:
        ct.new(chr(n), {'text-align': 'center'})


# ---------------------------------------------------------------- translator

def gen_globalstate():
    k = K()
    i = k['init']
    if i['env'] != '-' and set(i['env']) != {'n'}:
        raise ValueError('MathShift.inEnv is not empty at import: %r' % i['env'])
    if i['ix'] not in ('0', '1'):
        raise ValueError('index/bibliography classes disagree on their level at import')
    regs = [int(x) for x in i['regs'].split(',')]
    ncnt = len(k['List'].counters)
    cols = sorted(ord(n) for n in k['cols_init'] if len(n) == 1)
    b = lambda x: 'true' if int(x) else 'false'
    src = ('-- GENERATED by harness/extract.py from plasTeX/__init__.py, Base/TeX/Primitives.py, Base/TeX/Parameters.py, '
           'Base/LaTeX/{Lists,Math,Index,Bibliography,Arrays}.py (class-level defaults at import). Do not edit.\n-- mode: exact\n'
           'namespace PlasVerif.Generated.GlobalState\n'
           '/-! interpreter-wide (class-level) defaults, read off the classes right after import -/\n'
           'def initEnabled : Bool := %s\ndef initLevel : Int := %d\ndef initInEnvLen : Nat := %d\ndef initDepth : Int := %d\n'
           'def initDisBegin : Bool := %s\ndef initDisEnd : Bool := %s\n'
           '/-- `len(List.counters)` -/\ndef nCounters : Nat := %d\n'
           '/-- default values (pt) of the modelled dimen registers `%s` -/\ndef regDefaults : List Int := [%s]\n'
           '/-- `theindex/printindex/bibliography` are at section level by default -/\ndef idxSectionDefault : Bool := %s\n'
           '/-- names (code points) of the built-in column types in `ColumnType.columnTypes` -/\ndef defaultCols : List Nat := [%s]\n'
           'end PlasVerif.Generated.GlobalState\n') % (
        b(i['en']), i['lv'], 0 if i['env'] == '-' else len(i['env']), i['dp'], b(i['db']), b(i['de']), ncnt, ' '.join(REGS),
        ', '.join(map(str, regs)), b(i['ix']), ', '.join(map(str, cols)))
    return 'PlasVerif/Generated/GlobalState.lean', src, 'exact'


def gen_argpaths():
    """control-flow skeletons of the argument readers (C05's extractor): theorem readers_agree_with_balancedArg quantifies over them"""
    from props import c05_paths
    return c05_paths.gen_argpaths()


GENERATED = [gen_globalstate, gen_argpaths]

# ---------------------------------------------------------------- fresh-interpreter subprocesses

WORKER = 'import sys; sys.path.insert(0, %r); sys.path.insert(0, %r); import props.c17 as m; m.worker_main()'


def run_worker(job, timeout=300):
    env = dict(os.environ, PYTHONDONTWRITEBYTECODE='1', VERIF_REPO=REPO)
    p = subprocess.run([sys.executable, '-c', WORKER % (REPO, HARNESS)], input=json.dumps(job), stdout=subprocess.PIPE,
                       stderr=subprocess.PIPE, text=True, timeout=timeout, env=env)
    if p.returncode != 0:
        raise RuntimeError('worker failed rc=%d: %s' % (p.returncode, p.stderr[-1500:]))
    return json.loads(p.stdout.strip().split('\n')[-1])


def worker_main():
    job = json.loads(sys.stdin.read())
    K()
    if job['kind'] == 'events':
        res = []
        for words in job['docs']:
            base = next_id()
            res.append(run_event_doc(words, base))
        print(json.dumps(res))
    elif job['kind'] == 'vocabnames':
        print(json.dumps(vocab_names()))
    elif job['kind'] == 'vocab':
        print(json.dumps(run_vocab(job['names'], job.get('bits', '00000'))))
    elif job['kind'] == 'latex':
        res = []
        for d in job['docs']:
            before = class_state()
            r = run_latex_doc(d['src'], d.get('render', False))
            r['classdiff'] = class_state_diff(before, class_state(), job.get('bits', '00000'))
            res.append(r)
        print(json.dumps(res))


_variant = {}


def variant_bits():
    """which variant the code follows now: one witness history per leak, each in a fresh interpreter"""
    if 'bits' not in _variant:
        probes = [  # (history, B): B's trace after the history differs from B alone  <=>  the leak is present
            ([['ar:any']], ['as:0:9']), ([['D']], ['D']), ([['as:0:7']], ['us:0']),
            ([['dc:article']], ['dc:book', 'ix']), ([['nc:90']], ['uc:90'])]
        bits = []
        for hist, b in probes:
            after = run_worker({'kind': 'events', 'docs': hist + [b]})[-1].split(' # ')[0]
            alone = run_worker({'kind': 'events', 'docs': [b]})[0].split(' # ')[0]
            bits.append('1' if canon_ids(after) == canon_ids(alone) else '0')
        # D6a and D6b are repaired separately: the second bit needs both
        after = run_worker({'kind': 'events', 'docs': [['lb'], ['lb', 'it']]})[-1].split(' # ')[0]
        alone = run_worker({'kind': 'events', 'docs': [['lb', 'it']]})[0].split(' # ')[0]
        _variant['math'], _variant['list'] = bits[1] == '1', after == alone
        if after != alone:
            bits[1] = '0'
        _variant['bits'] = ''.join(bits)
    return _variant['bits']


# ---------------------------------------------------------------- event documents on the real interpreter

def render_events(words):
    src, uses, stack = ['\\usepackage{ifthen}\\usepackage{verifcol}'], [], []      # uses: what each visible skip/magstep element stands for
    cols = []
    depth = 0
    for w in words:
        p = w.split(':')
        if w == 'D': src.append('$')
        elif w == 'bo': src.append('\\hbox{'); depth += 1
        elif w == 'bc':
            src.append('}'); depth = max(0, depth - 1)
        elif w == 'lb': src.append('\\begin{itemize}')
        elif w == 'le': src.append('\\end{itemize}')
        elif w == 'it': src.append('\\item ')
        elif p[0] == 'as':
            sp = ASSIGN_SP[FAM[int(p[1])]]
            src.append('\\%s=%s\\relax' % (REGS[int(p[1])], sp[int(p[3]) % len(sp)] % int(p[2]) if len(p) > 3 else p[2] + UNIT[FAM[int(p[1])]]))
        elif p[0] == 'cp': src.append('\\%s=\\%s\\relax' % (REGS[int(p[1])], REGS[int(p[2])]))
        elif p[0] == 'us':
            r = int(p[1])
            src.append(('\\magstep\\%s\\relax' if FAM[r] == 'n' else '\\hskip\\%s\\relax') % REGS[r])
            if depth == 0:
                uses.append(('us', r))
        elif p[0] == 'ar':
            if p[1] in ('dimen', 'glue') and len(p) > 2:
                src.append(('\\vskip %s\\relax' if p[1] == 'dimen' else '\\hskip %s\\relax') % spelled(p[1], p[2]))
            else:
                src.append(ARG_SRC[p[1]])
            if depth == 0 and p[1] in ('number', 'dimen', 'glue', 'numreg', 'dimenreg', 'gluereg'):
                uses.append(('ar', p[1]))
        elif p[0] == 'dc': src.append('\\documentclass{%s}' % p[1])
        elif w == 'ix': src.append('\\printindex')
        elif p[0] == 'nc': src.append('\\verifnewcol{%s}' % chr(int(p[1])))
        elif p[0] == 'uc':
            src.append('\\begin{tabular}{%s}\\end{tabular}' % chr(int(p[1])))
            if depth == 0:
                cols.append(int(p[1]))
        elif w == 'if': src.append('\\ifthenelse{1<2}{}{}')
        elif w == 'pm': src.append('\\(\\)')
        elif w == 'nd': src.append('\\emph{}')
        else: raise ValueError(w)
    return ''.join(src), uses, cols


def new_document():
    from plasTeX import TeXDocument
    from plasTeX.Config import defaultConfig
    config = defaultConfig()
    config['general']['packages-dirs'] = [PKGDIR]
    config['images']['imager'] = 'none'
    config['images']['vector-imager'] = 'none'
    return TeXDocument(config=config), config


def next_id():
    k = K()
    return int(next(k['plasTeX'].idgen)[1:]) + 1


def canon_exc(e):
    return 'err:' + type(e).__name__


def run_event_doc(words, base):
    """one event document through the real interpreter; returns 'trace # snapshot'"""
    from plasTeX.TeX import TeX
    k = K()
    src, uses, ucols = render_events(words)
    doc, _ = new_document()
    tex = TeX(doc)
    tex.input(src)
    out, text, pend = [], [], [None]
    ColumnType = k['ColumnType']

    def flush():
        if text:
            s = ''.join(text)
            m = re.fullmatch(r'=(-?\d+)(?:\.0?)?(?:true)?(?:pt|mu)?(?:plus\S*)?', s)
            out.append('tx:' + m.group(1) if m else 'tx:=' if s == '=' else 'tx?' + s)
            del text[:]
    try:
        for t in tex:
            if t.nodeType != 1:
                s = str(t)
                if s.strip():
                    text.append(s.strip())
                continue
            flush()
            n, mode = t.nodeName, getattr(t, 'macroMode', 0)
            if n in ('math', 'displaymath') and mode == 1 or n == '(':
                pend[0] = '1' if n == 'math' else '0'
            elif pend[0] is not None and (n == ')' or n == 'math' and mode == 2):
                out.append('pm:%s%s' % (pend[0], '1' if n == 'math' else '0')); pend[0] = None
            elif n in ('math', 'displaymath'):
                out.append(('mc:' if mode == 2 else 'mo:') + n[0])
            elif n == 'hbox': out.extend(['bo', 'bc'])
            elif n == 'itemize': out.append('le' if mode == 2 else 'lb')
            elif type(t).__name__ == 'item' and isinstance(t, k['plasTeX'].UnrecognizedMacro): out.append('unk')
            elif n == 'item': out.append('it:%d' % k['List'].counters.index(t.counter))
            elif n in REGS:
                a = t.attributes or {}
                r = REGS.index(n)
                out.append('as:%d:%d' % (r, _val(a['value'], FAM[r])) if a.get('value') is not None else 'as0:%d' % r)
            elif n in ('hskip', 'magstep', 'vskip'):
                kind, what = uses.pop(0)
                if kind == 'us':
                    out.append('us:%d:%d' % (what, _val(t.attributes['size' if n == 'hskip' else 'value'], FAM[what])))
                else:
                    out.append('ar:' + what)
            elif n in ARG_EL: out.append('ar:' + ARG_EL[n])
            elif n == 'documentclass': out.append('dc:' + str(t.attributes['name']))
            elif n == 'printindex':
                out.append('ix:%d' % int(t.level == k['Command'].SECTION_LEVEL and t.counter == 'section'))
            elif n == 'verifnewcol': out.append('nc:%d' % ord(t.attributes['name']))
            elif n == 'tabular' and mode == 1:
                out.append('uc:%d:%d' % (ucols.pop(0), int(type(t.colspec[0]) is not ColumnType)))
            elif n == 'emph':
                out.append('nd:%d' % (int(t.id[1:]) - base))
        flush()
    except Exception as e:
        out.append(canon_exc(e))
    return (' '.join(out) or '-') + ' # ' + snap_str(read_state())


def canon_ids(obs):
    """renumber generated ids per document"""
    docs = []
    for d in obs.split(' ; '):
        seen = {}
        docs.append(re.sub(r'\bnd:(-?\d+)', lambda m: 'nd:%d' % seen.setdefault(m.group(1), len(seen)), d))
    return ' ; '.join(docs)


def impl(case, aux):
    if case.stream == 'ccache':
        return impl_ccache(case)
    if case.stream == 'holders':
        return impl_holders(case)
    if case.stream == 'kpse':
        return impl_kpse(case)
    words = case.line.split()
    st, docs = words[1:words.index('|')], words[words.index('|') + 1:]
    hist, cur = [], []
    for w in docs:
        if w == ';':
            hist.append(cur); cur = []
        else:
            cur.append(w)
    hist.append(cur)
    K()
    try:
        set_state(st)
        base = next_id()
        res = [run_event_doc(d, base) for d in hist]
    finally:
        set_state(['I'])
    if proc_state() != PROC0:        # not part of the model: any change is reported as it is
        res[-1] += ' !process-state ' + proc_state()
    return ' ; '.join(res)


def judge(o):
    o.corr_ok = (o.impl == o.model)
    if o.case.stream == 'kpse':
        o.prop_ok = (o.impl == o.spec)
        if not o.prop_ok:
            o.note = ('a file lookup does not give what the request (name, directory of the file being read, TEXINPUTS) determines, or '
                      'TEXINPUTS is not restored: the answer depends on earlier lookups of the interpreter')
    elif o.case.stream == 'holders':
        o.prop_ok = (o.impl == o.spec)
        if not o.prop_ok:
            o.note = ('the holders of two documents share mutable objects: what one document writes there the other one reads; objects: %s'
                      % '; '.join(o.case.meta.get('shared_objects', [])))
    elif o.case.stream == 'ccache':
        o.prop_ok = (o.impl == o.spec)
        if not o.prop_ok:
            o.note = ('a class sees a cached %s table that is not its own: what an environment/command means depends on which classes '
                      'earlier documents used; classes: %s' % (CC_ATTR[o.case.meta['mode']], ', '.join(o.case.meta['family'])))
    elif o.spec == '-' or o.case.stream == 'gleak':
        o.prop_ok = True
    else:
        a, b = canon_ids(o.impl).split(' ; '), o.spec.split(' ; ')
        ok = len(a) == len(b)
        for x, y in zip(a, b):
            if '*' in y:       # a field the last document is known to change (known finding class): left open
                rx = re.escape(y).replace('\\*', '\\S+')
                ok = ok and re.fullmatch(rx, x) is not None
            else:
                ok = ok and x == y
        o.prop_ok = ok
        if not ok:
            o.note = ('a document of the history differs from the same document alone in a fresh interpreter, or class-level state is not restored'
                      ' | the documents as LaTeX: ' + ' ;; '.join(render_events(d.split())[0] for d in o.case.line.split(' | ')[1].split(' ; ')))


TOUCH = ('D', 'bo', 'lb', 'le', 'if', 'ar:', 'dc:', 'as:', 'nc:')


def nontrivial(o):
    if o.case.stream == 'kpse':
        return len({w for w in o.spec.replace(':e1', '').split(' ; ')}) >= 2
    if o.case.stream == 'holders':
        return o.case.meta['mode'] != 'ff'
    if o.case.stream == 'ccache':
        return len(set(o.spec.split(' ; '))) >= 2
    docs = o.case.line.split(' | ')[1].split(' ; ')
    return len(docs) >= 2 and any(w.startswith(TOUCH) for d in docs[:-1] for w in d.split())


# ---------------------------------------------------------------- the per-class caches '@locals' / '@arguments' (stream ccache)

CC_PACKAGES = ['amsmath', 'longtable', 'natbib', 'graphicx', 'color', 'array', 'ifthen', 'subfigure', 'float', 'listings', 'verbatim']
CC_ATTR = {'L': '@locals', 'A': '@arguments'}
_U = {}


def universe():
    """every statically defined Macro class of the base macros and some packages, by 'module:qualname'"""
    if not _U:
        import importlib
        plasTeX = K()['plasTeX']
        import plasTeX.Base
        for p in CC_PACKAGES:
            try:
                importlib.import_module('plasTeX.Packages.' + p)
            except Exception:
                pass
        by = {}
        for c in plasTeX.subclasses(plasTeX.Macro):
            mod = sys.modules.get(c.__module__)
            o = mod
            for part in c.__qualname__.split('.'):
                o = getattr(o, part, None) if o is not None else None
            if o is c and c.__module__.startswith('plasTeX'):
                by[c.__module__ + ':' + c.__qualname__] = c
        _U['by'] = by
        _U['key'] = {c: k for k, c in by.items()}
    return _U


def cc_argsid(s):
    """canonical form of a compiled argument string, compiled on a throw-away class"""
    plasTeX = K()['plasTeX']
    cache = _U.setdefault('argsid', {})
    if s not in cache:
        T = type('VerifArgs', (plasTeX.Macro,), {'args': s})
        cache[s] = cc_canon_args(plasTeX.Macro.arguments.fget(T.__new__(T)))
    return cache[s]


def cc_canon_args(a):
    return repr([(x.name, sorted((k, repr(v)) for k, v in x.options.items())) for x in a])


def cc_own(c, mode):
    """what the class body itself contributes: [(name, value)] in definition order"""
    plasTeX = K()['plasTeX']
    if mode == 'L':
        return [(plasTeX.macroName(v), v) for v in vars(c).values() if plasTeX.ismacro(v)]
    return [('args', cc_argsid(vars(c)['args']))] if isinstance(vars(c).get('args'), str) else []


def cc_encode(fam, mode):
    """number the classes that matter (the family and every base that contributes), names and values"""
    U = universe()
    classes = list(fam)
    for c in fam:
        for k in c.__mro__:
            if k in U['key'] and k not in classes and cc_own(k, mode):
                classes.append(k)
    names, vals = {}, {}
    words = []
    for i, c in enumerate(classes):
        own = []
        for n, v in cc_own(c, mode):
            own.append('%d=%d' % (names.setdefault(n, len(names)), vals.setdefault(v, len(vals))))
        mro = [classes.index(k) for k in c.__mro__ if k in classes]
        words.append('c%d:%s:%s' % (i, ','.join(map(str, mro)), ','.join(own) or '-'))
    return classes, words, names, vals


def gen_ccache(rng, mode):
    U = universe()
    plasTeX = K()['plasTeX']
    pool = _U.setdefault('pool' + mode, sorted((c for c in U['key'] if cc_own(c, mode) and (mode == 'L' or c is not plasTeX.Macro)), key=lambda c: U['key'][c]))
    root = rng.choice(pool)
    if rng.random() < 0.6:       # prefer roots that have derived classes: that is where a cache can be inherited
        roots = _U.setdefault('roots' + mode, [c for c in pool if any(d in U['key'] for d in c.__subclasses__())])
        root = rng.choice(roots)
    desc = [d for d in plasTeX.subclasses(root)[1:] if d in U['key']]
    fam = [root] + rng.sample(desc, min(len(desc), rng.randint(0, 4)))
    for c in list(fam):          # contributing bases, and sometimes a sibling branch
        for k in c.__mro__[1:]:
            if k in U['key'] and k not in fam and cc_own(k, mode) and k is not plasTeX.Macro and rng.random() < 0.7:
                fam.append(k)
                sib = [d for d in k.__subclasses__() if d in U['key'] and d not in fam]
                if sib and rng.random() < 0.4:
                    fam.append(rng.choice(sib))
    fam = fam[:8]
    n = rng.randint(2, 7)
    r = rng.random()
    seq = [rng.randrange(len(fam)) for _ in range(n)]
    if r < 0.45:      # bases before the classes derived from them
        seq.sort(key=lambda i: len(fam[i].__mro__))
    elif r < 0.6:
        seq.sort(key=lambda i: -len(fam[i].__mro__))
    classes, words, _, _ = cc_encode(fam, mode)
    return Case('ccache', '0 %s | %s' % (' '.join(words), ' '.join(map(str, seq))),
                {'mode': mode, 'family': [U['key'][c] for c in fam]})


def impl_ccache(case):
    U = universe()
    plasTeX = K()['plasTeX']
    mode = case.meta['mode']
    fam = [U['by'][k] for k in case.meta['family']]
    classes, words, names, vals = cc_encode(fam, mode)
    head, seq = case.line.split(' | ')
    if head.split()[1:] != words:
        return 'err:hierarchy-changed'
    for c in fam:                # a fresh interpreter: no class has cached anything yet
        for k in c.__mro__:
            if CC_ATTR[mode] in vars(k):
                delattr(k, CC_ATTR[mode])
    out = []
    for i in seq.split():
        c = classes[int(i)]
        obj = c.__new__(c)
        if mode == 'L':
            t = [(names.get(n, '?'), vals.get(v, '?')) for n, v in plasTeX.Macro.locals(obj).items()]
        else:
            t = [(0, vals.get(cc_canon_args(plasTeX.Macro.arguments.fget(obj)), '?'))]
        t = [x for x in t if x[0] != '?'] + [x for x in t if x[0] == '?']
        out.append(','.join('%s=%s' % x for x in sorted(t, key=lambda x: (x[0] == '?', x[0]))) or '-')
    return ' ; '.join(out)


# ---------------------------------------------------------------- the per-document state holders (stream holders)

_HOLD = {}
SENTINEL = '__c17_sentinel__'


def build_doc(words, process):
    from plasTeX.TeX import TeX
    src, _, _ = render_events(words)
    doc, _ = new_document()
    tex = TeX(doc)
    if process:
        tex.input(src)
        try:
            tex.parse()
        except Exception:
            pass
    return doc, tex


def holder_roots(doc, tex):
    return [doc.context, doc.config, doc.userdata, doc.charsubs, doc.packageResources, doc.rendererdata,
            doc.postParseCallbacks, vars(tex), vars(doc)]


def is_mutable_node(o):
    import types, logging as _l, io
    if isinstance(o, (type, types.ModuleType, types.FunctionType, types.BuiltinFunctionType, types.MethodType, types.GeneratorType,
                      str, bytes, int, float, complex, bool, type(None), tuple, frozenset, _l.Logger, _l.Handler, io.IOBase)):
        return False
    return isinstance(o, (dict, list, set)) or hasattr(o, '__dict__')


def children(o):
    if isinstance(o, dict):
        return list(o.keys()) + list(o.values())
    if isinstance(o, (list, tuple, set, frozenset)):
        return list(o)
    return []


def walk(roots, number, edges, maxdepth=7, cap=4000):
    """mutable objects reachable from the roots (through immutable tuples too); `number` maps id -> (index, object)"""
    seen, order = set(), []
    stack = [(r, 0, None) for r in reversed(roots)]
    while stack and len(number) < cap:
        o, d, parent = stack.pop()
        if isinstance(o, (tuple, frozenset)):
            for c in reversed(children(o)):
                stack.append((c, d, parent))
            continue
        if not is_mutable_node(o):
            continue
        if id(o) not in number:
            number[id(o)] = (len(number), o)
        i = number[id(o)][0]
        if parent is not None and edges is not None:
            edges.add((parent, i))
        if id(o) in seen or d >= maxdepth:
            continue
        seen.add(id(o))
        order.append(o)
        kids = children(o)
        if hasattr(o, '__dict__') and not isinstance(o, (dict, list, set)) or hasattr(o, '__dict__') and type(o) not in (dict, list, set):
            kids = kids + list(vars(o).values())
        for c in reversed(kids):
            stack.append((c, d + 1, i))
    return order


def gen_holders(rng, slot):
    a_words, b_words = gen_event_doc(rng, True), gen_event_doc(rng, True)
    mode = rng.choice(['pp', 'pp', 'pf', 'fp', 'ff'])
    return holders_case(a_words, b_words, mode, slot)


def holders_case(a_words, b_words, mode, slot, origin='gen'):
    a = build_doc(a_words, mode[0] == 'p')
    b = build_doc(b_words, mode[1] == 'p')
    number, edges = {}, set()
    ra, rb = holder_roots(*a), holder_roots(*b)
    walk(ra, number, edges)
    walk(rb, number, edges)
    _HOLD[slot] = (a, b)
    line = 'E%s A%s B%s' % (','.join('%d>%d' % e for e in sorted(edges)) or '-',
                            ','.join(str(number[id(r)][0]) for r in ra), ','.join(str(number[id(r)][0]) for r in rb))
    return Case('holders', line, {'a': a_words, 'b': b_words, 'mode': mode, 'slot': slot}, origin)


def impl_holders(case):
    """mutate every mutable object reachable from A's holders, then look at everything reachable from B's holders"""
    m = case.meta
    a, b = _HOLD.pop(m['slot'], None) or (build_doc(m['a'], m['mode'][0] == 'p'), build_doc(m['b'], m['mode'][1] == 'p'))
    number = {}
    ra, rb = holder_roots(*a), holder_roots(*b)
    objs_a = walk(ra, number, None)
    marked = []
    for o in objs_a:
        try:
            if isinstance(o, dict): o[SENTINEL] = 1
            elif isinstance(o, list): o.append(SENTINEL)
            elif isinstance(o, set): o.add(SENTINEL)
            else: vars(o)[SENTINEL] = 1
            marked.append(o)
        except Exception:
            pass
    seen_b = []
    for o in walk(rb, number, None):
        try:
            # (identity, not ==: DOM nodes and tokens define their own equality)
            hit = any(x is SENTINEL for x in o) if isinstance(o, list) else (SENTINEL in o) if isinstance(o, (dict, set)) else (SENTINEL in vars(o))
        except Exception:
            hit = False
        if hit:
            seen_b.append(number[id(o)][0])
    for o in marked:
        try:
            if isinstance(o, dict): o.pop(SENTINEL, None)
            elif isinstance(o, list):
                for i in range(len(o) - 1, -1, -1):
                    if o[i] is SENTINEL:
                        del o[i]
                        break
            elif isinstance(o, set): o.discard(SENTINEL)
            else: vars(o).pop(SENTINEL, None)
        except Exception:
            pass
    case.meta['shared_objects'] = []
    if seen_b:
        inv = {i: o for i, o in number.values()}
        case.meta['shared_objects'] = ['%s %s' % (type(inv[i]).__name__, repr(inv[i])[:80]) for i in seen_b[:5]]
    return 'shared:' + (','.join(map(str, sorted(seen_b))) or '-')


# ---------------------------------------------------------------- file lookup: TeX.kpsewhich (stream kpse)

KP_DIRS, KP_NAMES = 4, 4


def gen_kpse(rng):
    """a file system (directories 0 = working directory, 1..4; names 1..4) and a sequence of lookups made by several documents of one
    interpreter: same names asked from files in different directories, different TEXINPUTS, absolute names, missing files"""
    files = sorted({(rng.randint(0, KP_DIRS), rng.randint(1, KP_NAMES)) for _ in range(rng.randint(0, 9))})
    reqs = []
    for _ in range(rng.randint(2, 9)):
        ti = [rng.randint(0, KP_DIRS) for _ in range(rng.choice([0, 0, 0, 1, 2, 3]))]
        if ti == [0]:
            ti = []                       # a single empty entry is the empty string: the same as unset
        src = '-' if rng.random() < 0.1 else str(rng.randint(0, KP_DIRS))
        name = rng.randint(1, KP_NAMES) if rng.random() < 0.9 else KP_NAMES + 1
        reqs.append('%s %s %d %d' % (','.join(map(str, ti)) or '-', src, int(rng.random() < 0.06), name))
    return Case('kpse', 'F%s | %s' % (','.join('%d.%d' % f for f in files) or '-', ' ; '.join(reqs)), None)


def impl_kpse(case):
    from plasTeX.TeX import TeX
    head, body = case.line.split(' | ')
    files = [] if head[1:] == '-' else [tuple(map(int, f.split('.'))) for f in head[1:].split(',')]
    cwd, ti0 = os.getcwd(), os.environ.get('TEXINPUTS')
    import hashlib
    salt = hashlib.sha256(case.line.encode()).hexdigest()[:8]      # file names of this case only: a case is a self-contained history
    root = os.path.realpath(tempfile.mkdtemp(prefix='c17k-'))
    dirs = [os.path.join(root, 'd%d' % i) for i in range(KP_DIRS + 1)]
    out = []
    try:
        for d in dirs:
            os.mkdir(d)
            open(os.path.join(d, 'cur.tex'), 'w').write('x')
        for d, n in files:
            open(os.path.join(dirs[d], 'n%d_%s.tex' % (n, salt)), 'w').write('file %d of directory %d' % (n, d))
        os.chdir(dirs[0])
        if 'kdoc' not in _K:
            _K['kdoc'] = new_document()[0]
        for q in body.split(' ; '):
            ti, src, ab, name = q.split()
            tistr = '' if ti == '-' else os.pathsep.join('' if x == '0' else dirs[int(x)] for x in ti.split(','))
            if tistr:
                os.environ['TEXINPUTS'] = tistr
            else:
                os.environ.pop('TEXINPUTS', None)
            tex = TeX(_K['kdoc'])
            fh = None
            if src != '-':       # the file being read lives in directory src (a relative name for the working directory)
                fh = open('cur.tex' if src == '0' else os.path.join(dirs[int(src)], 'cur.tex'))
                tex.input(fh)
            fname = 'n%s_%s.tex' % (name, salt)
            if ab == '1':
                fname = os.path.join(root, 'elsewhere', fname)
            try:
                r = tex.kpsewhich(fname)
                if r == fname and ab == '1':
                    res = 'as'
                else:
                    dd = os.path.dirname(os.path.realpath(os.path.abspath(r)))
                    res = 'f%d' % dirs.index(dd) if dd in dirs and os.path.basename(r) == fname else 'f?' + r.replace(root, '')
            except FileNotFoundError:
                res = 'nf'
            except Exception as e:
                res = canon_exc(e)
            finally:
                if fh:
                    fh.close()
            out.append('%s:e%d' % (res, int(os.environ.get('TEXINPUTS', '') == tistr)))
    finally:
        os.chdir(cwd)
        if ti0 is None:
            os.environ.pop('TEXINPUTS', None)
        else:
            os.environ['TEXINPUTS'] = ti0
        shutil.rmtree(root, ignore_errors=True)
    return ' ; '.join(out)


# ---------------------------------------------------------------- generation of event documents

def gen_arg(rng):
    ty = rng.choice(list(ARG_SRC))
    if ty == 'dimen' and rng.random() < 0.8:       # (literal glue is only read by glue-register assignments: ASSIGN_SP)
        return 'ar:%s:%d' % (ty, rng.randrange(40))        # a spelling of the literal: units incl. true units, signs, stretch/shrink
    return 'ar:' + ty


def gen_assign(rng):
    w = 'as:%d:%d' % (rng.randrange(len(REGS)), rng.randint(-3, 40))
    return w + ':%d' % rng.randrange(12) if rng.random() < 0.6 else w


def gen_inner(rng, depth):
    """content of an \\hbox{..} argument"""
    out = []
    for _ in range(rng.randint(0, 4)):
        r = rng.random()
        if r < 0.3: out += ['D'] + (['us:%d' % rng.randrange(4)] if rng.random() < 0.5 else []) + ['D']
        elif r < 0.4: out += ['D', 'D', 'pm', 'D', 'D']
        elif r < 0.5: out.append('D')
        elif r < 0.6: out.append('us:%d' % rng.randrange(8))
        elif r < 0.75: out.append(gen_arg(rng))
        elif r < 0.85: out.append('pm')
        elif depth < 2: out += ['bo'] + gen_inner(rng, depth + 1) + ['bc']
    return out


def gen_body(rng, depth, leaky, inlist, havecls):
    out = []
    for _ in range(rng.randint(1, 5)):
        r = rng.random()
        if r < 0.14:
            out += ['D'] + (['nd'] if rng.random() < 0.3 else []) + (['bo'] + gen_inner(rng, 1) + ['bc'] if rng.random() < 0.3 else []) + ['D']
        elif r < 0.22:
            out += ['D', 'D'] + (['us:%d' % rng.randrange(4)] if rng.random() < 0.5 else []) + ['D', 'D']
        elif r < 0.27:
            out += rng.choice([['D', 'D', 'D'], ['D', 'D', 'D', 'D', 'D', 'D'], ['D', 'nd', 'D', 'D', 'D', 'D']])
        elif r < 0.37: out += ['bo'] + gen_inner(rng, 1) + ['bc']
        elif r < 0.52 and depth < 5:
            out.append('lb')
            for _ in range(rng.randint(0, 3)):
                out.append('it')
                if rng.random() < 0.6:
                    out += gen_body(rng, depth + 1, leaky, True, havecls)
            out.append('le')
        elif r < 0.58 and inlist: out.append('it')
        elif r < 0.66: out.append('us:%d' % rng.randrange(8))
        elif r < 0.76: out.append(gen_arg(rng))
        elif r < 0.81: out.append('nd')
        elif r < 0.86: out.append('if')
        elif r < 0.90: out.append('pm')
        elif r < 0.93 and havecls: out.append('ix')
        elif r < 0.96: out.append('uc:%d' % rng.choice([90, 89, 99, 108, 81]))
        elif leaky:
            fam = rng.choice(FAMILIES)
            out.append(rng.choice([gen_assign(rng), 'as:0:%d' % rng.randint(1, 9),
                                   'cp:%d:%d' % (rng.choice(fam), rng.choice(fam)), 'cp:%d:%d' % (rng.choice(fam), rng.choice(fam)),
                                   'nc:%d' % rng.choice([90, 89])]))
    return out


def gen_event_doc(rng, leaky):
    words = []
    havecls = rng.random() < 0.85
    bits = variant_bits()
    if havecls:
        words.append('dc:' + rng.choice(['book', 'report', 'article'] if leaky or bits[3] == '1' else ['book', 'report']))
    words += gen_body(rng, 0, leaky, False, havecls)
    r = rng.random()
    if r < 0.30 and len(words) > 1:       # end of input inside math, a box or a list
        words = words[:rng.randint(1, len(words) - 1)]
    elif r < 0.45:                        # malformed: stray closers, items outside lists, lone shifts
        for _ in range(rng.randint(1, 3)):
            words.insert(rng.randint(1 if havecls else 0, len(words)), rng.choice(['le', 'bc', 'it', 'D', 'lb', 'bo']))
    # the harness does not look inside boxes: keep id-bearing / list / class events out of them
    depth, res = 0, []
    for w in words:
        if w == 'bo': depth += 1
        elif w == 'bc': depth = max(0, depth - 1)
        elif depth and not (w in ('D', 'pm') or w.startswith(('us:', 'ar:'))):
            continue
        res.append(w)
    return res


def gen_state(rng):
    env = ''.join(rng.choice('nmd') for _ in range(rng.choice([0, 0, 1, 1, 2, 3])))
    cols = sorted(set(rng.choice([90, 89]) for _ in range(rng.choice([0, 0, 1, 2]))))
    lv = rng.choice([0, 0, 0, -1, -1, -2, 1])
    en = int(lv >= 0)      # the \usepackage lines every event document starts with re-derive `enabled` from the level anyway
    return 'S %d %d %d %d %d %d E%s R%s C%s' % (
        en, lv, int(rng.random() < 0.15), int(rng.random() < 0.15), rng.choice([0, 0, 1, 2, 3, 4, 5, -1]), rng.randrange(2),
        env or '-', ','.join(str(rng.randint(0, 30)) for _ in range(len(REGS))), ','.join(map(str, cols)) or '-')


def mkcase(stream, bits, state, docs, origin='gen'):
    return Case(stream, '%s %s | %s' % (bits, state, ' ; '.join(' '.join(d) for d in docs)), None, origin)


def generate(ctx):
    rng = ctx.rng
    bits = variant_bits()
    ctx.say('variant followed by the code now (fixAny trkDoc regsDoc classDoc colsDoc): ' + bits)
    n = 700 if ctx.tier == 'quick' else 12000
    for i in range(n):
        k = rng.choice([1, 2, 2, 3, 3, 4, 5])
        docs = [gen_event_doc(rng, False) for _ in range(k - 1)] + [gen_event_doc(rng, rng.random() < 0.5)]
        if rng.random() < 0.15 and k >= 2:
            docs[-1] = list(docs[rng.randrange(k - 1)])          # the same input twice
        yield mkcase('gstate', bits, 'I', docs)
    for i in range(n // 2):          # stream gread: earlier documents assign registers / define column types, later ones avoid reading them
        k = rng.choice([2, 2, 3, 3, 4, 5])
        docs, dirty_r, dirty_c = [], set(), set()
        for j in range(k):
            d = [w for w in gen_event_doc(rng, rng.random() < 0.7)
                 if not (w.startswith('us:') and int(w.split(':')[1]) in dirty_r or w.startswith('cp:') and int(w.split(':')[2]) in dirty_r
                         or w.startswith('uc:') and int(w.split(':')[1]) in dirty_c)]
            if rng.random() < 0.7:
                for _ in range(rng.randint(1, 2)):
                    fam = rng.choice(FAMILIES)
                    src = [q for q in fam if q not in dirty_r] or [None]
                    ev = rng.choice([gen_assign(rng), 'nc:%d' % rng.choice([90, 89])] +
                                    (['cp:%d:%d' % (rng.choice(fam), rng.choice(src))] if src[0] is not None else []))
                    d.insert(rng.randint(1 if d and d[0].startswith('dc:') else 0, len(d)), ev)
                depth, keep = 0, []          # (not inside boxes: the harness does not look into them)
                for w in d:
                    depth += (w == 'bo') - (w == 'bc' and depth > 0)
                    if not (depth and w.startswith(('as:', 'cp:', 'nc:')) and w != 'bo'):
                        keep.append(w)
                d = keep
            docs.append(d)
            dirty_r |= {int(w.split(':')[1]) for w in d if w.startswith(('as:', 'cp:'))}
            dirty_c |= {int(w.split(':')[1]) for w in d if w.startswith('nc:')}
        yield mkcase('gread', bits, 'I', docs)
    for i in range(n):
        k = rng.choice([1, 1, 2, 3])
        yield mkcase('gleak', bits, gen_state(rng) if rng.random() < 0.8 else 'I', [gen_event_doc(rng, True) for _ in range(k)])
    for i in range(400 if ctx.tier == 'quick' else 8000):
        yield gen_ccache(rng, 'L' if i % 2 == 0 else 'A')
    for i in range(40 if ctx.tier == 'quick' else 300):
        yield gen_holders(rng, i)
    for i in range(200 if ctx.tier == 'quick' else 3000):
        yield gen_kpse(rng)


WITNESS = {   # leak -> (history, needs which variant bit)
    'D5-any-argument': [['ar:any'], ['as:0:9', 'us:0']],
    'D6a-open-math': [['dc:book', 'D'], ['dc:book', 'D', 'D']],
    'D6a-open-math-in-box': [['bo', 'D', 'bc'], ['D']],
    'D6b-open-list': [['dc:book', 'lb', 'it'], ['dc:book', 'lb', 'it', 'le']],
    'D6c-register': [['as:0:7'], ['us:0']],
    'D6d-article-class': [['dc:article'], ['dc:book', 'ix']],
    'D6e-column-type': [['nc:90'], ['uc:90']],
}


def corpus():
    bits = variant_bits()
    cs = [mkcase('gstate', bits, 'I', WITNESS[w], 'corpus') for w in
          ('D5-any-argument', 'D6a-open-math', 'D6a-open-math-in-box', 'D6b-open-list')]    # the known findings are replayed from corpus/C17/*.json
    cs += [mkcase('gstate', bits, 'I', [['dc:book', 'D', 'D', 'D'], ['D', 'D', 'D', 'D']], 'corpus'),
           mkcase('gstate', bits, 'I', [['lb', 'lb', 'lb', 'lb', 'lb', 'it'], ['it', 'lb', 'it']], 'corpus'),
           mkcase('gstate', bits, 'I', [['bo', 'ar:any', 'D'], ['as:1:3', 'us:1']], 'corpus'),
           mkcase('gstate', bits, 'I', [['if', 'pm'], ['pm', 'if', 'nd']], 'corpus'),
           mkcase('gleak', bits, 'S 1 -1 1 0 5 1 Enm R1,2,3,4,5,6,7,8,9,10 C90', [['dc:book', 'D', 'it', 'lb', 'it', 'as:0:5', 'us:0', 'cp:8:9', 'cp:4:5', 'us:4', 'as:9:2', 'pm', 'ix', 'uc:90', 'uc:89']], 'corpus'),
           # register copies of every family (the operand is read as an internal quantity by readNumber/readDimen/readGlue/readMuGlue)
           mkcase('gstate', bits, 'I', [['dc:book', 'us:4', 'us:6', 'ar:numreg', 'ar:dimenreg', 'ar:gluereg'], ['cp:8:9', 'cp:6:7', 'cp:4:5', 'cp:0:1', 'as:8:6', 'as:4:3', 'as:6:2']], 'corpus'),
           mkcase('gleak', bits, 'I', [['cp:8:9'], ['as:0:5', 'us:0'], ['cp:6:7', 'cp:4:5'], ['bo', 'cp:0:1', 'bc', 'as:3:9', 'us:3']], 'corpus')]
    for name in FIXED_WITNESSES:      # findings that have been repaired: their witnesses stay in the corpus
        w = json.load(open(os.path.join(VERIF, 'corpus', 'C17', name + '.json')))
        if 'case' in w:
            cs.append(Case(w['case']['stream'], bits + ' ' + w['case']['line'].split(' ', 1)[1], w['case'].get('meta'), 'corpus'))
    return cs


FIXED_WITNESSES = ['D6d-article-class', 'syspath-packages-dir']


def shrink(ctx, o, evaluate):
    """drop whole documents, then single events, while the property still fails"""
    if o.case.stream == 'kpse':         # drop lookups while the property still fails
        head, body = o.case.line.split(' | ')
        reqs, best, improved = body.split(' ; '), o, True
        while improved and len(reqs) > 1:
            improved = False
            cs = [Case('kpse', '%s | %s' % (head, ' ; '.join(reqs[:i] + reqs[i + 1:])), None, 'shrink') for i in range(len(reqs))]
            for i, r in enumerate(evaluate(cs)):
                if not r.prop_ok:
                    best, reqs, improved = r, reqs[:i] + reqs[i + 1:], True
                    break
        return best
    if o.case.stream == 'ccache':       # drop lookups while the property still fails
        head, seq = o.case.line.split(' | ')
        seq, best, improved = seq.split(), o, True
        while improved and len(seq) > 1:
            improved = False
            cs = [Case('ccache', '%s | %s' % (head, ' '.join(seq[:i] + seq[i + 1:])), o.case.meta, 'shrink') for i in range(len(seq))]
            for i, r in enumerate(evaluate(cs)):
                if not r.prop_ok:
                    best, seq, improved = r, seq[:i] + seq[i + 1:], True
                    break
        return best
    if o.case.stream not in ('gstate', 'gread'):
        return o
    head, body = o.case.line.split(' | ')
    docs = [d.split() for d in body.split(' ; ')]
    best = o
    improved = True
    while improved:
        improved = False
        cands = []
        for i in range(len(docs)):
            if len(docs) > 1:
                cands.append(docs[:i] + docs[i + 1:])
        for i, d in enumerate(docs):
            for j in range(len(d)):
                cands.append(docs[:i] + [d[:j] + d[j + 1:]] + docs[i + 1:])
        cands = cands[:400]
        cs = [Case(o.case.stream, '%s | %s' % (head, ' ; '.join(' '.join(d) for d in c)), None, 'shrink') for c in cands]
        for r, c in zip(evaluate(cs), cands):
            if not r.prop_ok and r.corr_ok == best.corr_ok:
                best, docs, improved = r, c, True
                break
    return best


def search(ctx, evaluate, corr_bad):
    """proof or tie broken, no property failure in the main batch: a bigger seeded batch against the Spec oracle,
    then the document-level oracle with more histories"""
    rng = _random.Random(ctx.seed + 7919)
    bits = variant_bits()
    cases = []
    for o in corr_bad[:50]:       # the disagreeing histories, restarted from the initial state with a probe document appended
        body = o.case.line.split(' | ')[1]
        for probe in ('D D ; as:0:9 us:0', 'lb it', 'dc:book ix', 'uc:90 pm'):
            cases.append(Case('gstate', '%s I | %s ; %s' % (bits, body, probe), None, 'search'))
    for _ in range(2500 if ctx.tier == 'quick' else 12000):
        k = rng.choice([2, 3, 4, 5])
        cases.append(mkcase('gstate', bits, 'I', [gen_event_doc(rng, False) for _ in range(k - 1)] + [gen_event_doc(rng, True)], 'search'))
    bad = [o for o in evaluate(cases) if not o.prop_ok]
    if bad:
        o = shrink(ctx, bad[0], evaluate)
        return Violation('a document depends on what was processed before it (found by search)', {'kind': 'failing-input', 'outcome': o.to_json()})
    viol, _ = pair_checks(ctx, _random.Random(ctx.seed + 104729), 60 if ctx.tier == 'quick' else 400, 0)
    return viol[0] if viol else None


# ---------------------------------------------------------------- document level: real LaTeX documents, fresh subprocesses

def canon_text(s):
    seen = {}
    return re.sub(r'\ba(\d{10})\b', lambda m: 'ID%d' % seen.setdefault(m.group(1), len(seen)), s)


# ---------------------------------------------------------------- every class attribute and module global of plasTeX

def _summ(o, d=0):
    """address-free summary of a value: containers to depth 3, other objects by their class"""
    import types
    if isinstance(o, (str, bytes, int, float, bool, type(None))): return repr(o)[:60]
    if isinstance(o, type): return 'class ' + o.__name__
    if isinstance(o, (list, tuple)): return type(o).__name__ + '[' + (','.join(_summ(x, d + 1) for x in o[:60]) if d < 3 else str(len(o))) + ']'
    if isinstance(o, (set, frozenset)): return 'set{' + ','.join(sorted(_summ(x, d + 1) for x in list(o)[:60])) + '}'
    if isinstance(o, dict):
        return 'dict{' + (','.join(sorted('%s:%s' % (_summ(k, d + 1), _summ(v, d + 1)) for k, v in list(o.items())[:100])) if d < 3 else str(len(o))) + '}'
    if isinstance(o, (types.FunctionType, types.BuiltinFunctionType, types.MethodType, classmethod, staticmethod, property)): return 'fn'
    return 'obj ' + type(o).__name__


def class_state():
    """{'module:Class.attr' | 'module:global' -> summary} over every loaded plasTeX module: all data attributes of all classes
    (nested ones too) and all module-level containers.  This is the whole interpreter-wide state a document could change."""
    snap = {}
    for mname, mod in sorted(sys.modules.items()):
        if not mname.startswith('plasTeX') or mod is None:
            continue
        for k, v in list(vars(mod).items()):
            if isinstance(v, type) and v.__module__ == mname:
                todo = [(mname + ':' + v.__qualname__, v)]
                while todo:
                    cn, c = todo.pop()
                    for a, x in list(vars(c).items()):
                        if a.startswith('__') and a.endswith('__'):
                            continue
                        if isinstance(x, type):
                            if x.__qualname__.startswith(c.__qualname__ + '.'):
                                todo.append((mname + ':' + x.__qualname__, x))
                            else:
                                snap[cn + '.' + a] = 'class ' + x.__name__
                        else:
                            t = _summ(x)
                            if t != 'fn':
                                snap[cn + '.' + a] = t
            elif isinstance(v, (dict, list, set)) and not k.startswith('__'):
                snap[mname + ':' + k] = _summ(v)
    return snap


# not parsing state, or recorded known findings (left open only while the code still has them)
def class_state_allowed(key, bits):
    if key == 'plasTeX.Logging:_loggers':
        return True
    if key.endswith('.value') and bits[2] == '0':                    # D6c: register values on the command classes
        return True
    if key.endswith(':ColumnType.columnTypes') and bits[4] == '0':    # D6e
        return True
    return False


def class_state_diff(before, after, bits):
    """attributes that existed before the document and have another value after it"""
    return ['%s: %s -> %s' % (k, before[k][:80], after[k][:80]) for k in sorted(before)
            if k in after and before[k] != after[k] and not class_state_allowed(k, bits)]


# ---------------------------------------------------------------- vocabulary sweep: every built-in command and environment once

VOCAB_PKGS = ['ifthen', 'amsmath', 'graphicx', 'color', 'longtable', 'natbib', 'hyperref', 'makeidx', 'array', 'verbatim', 'float', 'subfigure', 'url', 'calc']


def vocab_names():
    """names of all macros a document sees with the usual packages loaded (sorted: the choice depends on the seed only)"""
    from plasTeX.TeX import TeX
    doc, _ = new_document()
    tex = TeX(doc)
    tex.input('\\documentclass{book}' + ''.join('\\usepackage{%s}' % p for p in VOCAB_PKGS))
    tex.parse()
    return sorted(k for k in doc.context.contexts[0].keys() if isinstance(k, str) and k.isalpha())


def vocab_args(cls):
    """actual arguments that fit the declared signature: a control sequence for :cs, a number/dimension for the TeX types, no optionals"""
    out, optional = [], False
    for w in str(getattr(cls, 'args', '') or '').split():
        if w in ('[', '(', '<'):
            optional = True
        elif w in (']', ')', '>'):
            optional = False
        elif optional or w == '*':
            continue
        elif w == '=':
            out.append('=')
        elif ':cs' in w or ':Tok' in w or ':XTok' in w:
            out.append('\\vfz ')
        elif ':Number' in w or ':Int' in w:
            out.append('1 ')
        elif ':Dimen' in w or ':Glue' in w:
            out.append('1pt ')
        elif ':MuDimen' in w or ':MuGlue' in w:
            out.append('1mu ')
        elif ':Args' in w:
            out.append('#1')
        elif ':int' in w or ':float' in w:
            out.append('{1}')
        elif ':dimen' in w:
            out.append('{1pt}')
        else:
            out.append('{a}')
    return ''.join(out)


def run_vocab(names, bits):
    """each command (environment) once in its own small document, with the class/module snapshot around it"""
    import signal
    from plasTeX.TeX import TeX
    from plasTeX import Environment

    def alarm(*a):
        raise TimeoutError()
    old = signal.signal(signal.SIGALRM, alarm)
    out = {}
    pre = '\\documentclass{book}' + ''.join('\\usepackage{%s}' % p for p in VOCAB_PKGS) + '\\begin{document}\\begingroup x '
    before = class_state()
    cwd = os.getcwd()
    d = tempfile.mkdtemp(prefix='c17v-')
    try:
        os.chdir(d)
        for n in names:
            doc, _ = new_document()
            tex = TeX(doc)
            cls = doc.context.contexts[0].get(n)
            try:
                isenv = isinstance(cls, type) and issubclass(cls, Environment)
            except Exception:
                isenv = False
            a = vocab_args(cls) if isinstance(cls, type) else ''
            body = '\\begin{%s}%s c \\end{%s}' % (n, a, n) if isenv else '\\%s%s' % (n, a)
            tex.input(pre + body + ' y\\endgroup z\\end{document}')
            err = None
            signal.alarm(10)
            try:
                tex.parse()
                doc.toXML()
            except TimeoutError:
                err = 'timeout'
            except Exception as e:
                err = type(e).__name__
            finally:
                signal.alarm(0)
            if err:        # not processed to completion: outside the property; put the listed switches back and take a new baseline
                set_state(['I'])
                before = class_state()
                continue
            after = class_state()
            diff = class_state_diff(before, after, bits)
            if diff:
                out[n] = diff[:4]
            before = after
    finally:
        signal.signal(signal.SIGALRM, old)
        os.chdir(cwd)
        shutil.rmtree(d, ignore_errors=True)
    return out


VOCAB_SKIP = {'today', 'year', 'month', 'day', 'time', 'currenttime'}      # read the clock: not interpreter state


def vocab_checks(ctx, rng):
    """no built-in command, whatever it does, may change a class attribute or module global (apart from the known findings)"""
    bits = variant_bits()
    names = [n for n in run_worker({'kind': 'vocabnames'}) if n not in VOCAB_SKIP]
    sample = names if ctx.tier != 'quick' else sorted(rng.sample(names, min(len(names), 220)))
    res = run_worker({'kind': 'vocab', 'names': sample, 'bits': bits}, timeout=1500)
    viol = []
    for n in sorted(res):
        viol.append(Violation('vocabulary sweep: \\%s changes interpreter-wide state (class attributes / module globals): %s' % (n, ' ; '.join(res[n])),
                              {'kind': 'failing-input', 'extra': {'stream': 'vocab', 'names': [n]}, 'why': res[n]}))
    return viol, {'evaluations': len(sample), 'vocabulary': len(names)}


FILE_MARK = '%%C17FILE '


def split_project(src):
    """a generated document is a project: optional leading blocks `%%C17FILE name` … `%%C17END` (files next to main.tex), then main.tex"""
    files = {}
    while src.startswith(FILE_MARK):
        head, rest = src.split('\n', 1)
        body, src = rest.split('%%C17END\n', 1)
        files[head[len(FILE_MARK):].strip()] = body
    return src, files


def write_project(d, src):
    main, files = split_project(src)
    proj = os.path.join(d, 'proj')
    os.makedirs(proj)
    os.makedirs(os.path.join(d, 'work'))
    for name, body in files.items():
        open(os.path.join(proj, name), 'w', encoding='utf-8').write(body)
    open(os.path.join(proj, 'main.tex'), 'w', encoding='utf-8').write(main)
    return proj, files


def run_compile_doc(src):
    """the entry point of the `plastex` command: plasTeX.Compile.run on a file, output directory, XML dump, HTML5 renderer"""
    import io, contextlib
    from plasTeX import Compile
    from plasTeX.Config import defaultConfig
    res = {'files': {}}
    cwd = os.getcwd()
    d = tempfile.mkdtemp(prefix='c17-')
    try:
        d = os.path.realpath(d)
        proj, _ = write_project(d, src)
        os.chdir(proj)                       # `plastex main.tex` run inside the project directory
        config = defaultConfig()
        config['general']['load-tex-packages'] = True
        config['general']['packages-dirs'] = [PKGDIR]
        config['images']['imager'] = 'none'
        config['images']['vector-imager'] = 'none'
        config['files']['directory'] = os.path.join(d, 'out')
        config['files']['log'] = False
        config['general']['xml'] = True
        config['general']['renderer'] = 'HTML5'
        try:
            with contextlib.redirect_stdout(io.StringIO()):
                Compile.run('main.tex', config)
            out = os.path.join(d, 'out')
            res['xml'] = canon_text(open(os.path.join(out, 'main.xml'), encoding='utf-8').read().replace(d, 'TMPDIR'))
            for f in sorted(os.listdir(out)):
                if f.endswith('.html'):
                    res['files'][f] = canon_text(open(os.path.join(out, f), encoding='utf-8', errors='replace').read().replace(d, 'TMPDIR'))
        except Exception as e:
            res['err'] = type(e).__name__ + ': ' + str(e)[:120]
        res['snap'] = snap_str(read_state()) + ' ' + proc_state(proj)      # before this function restores the directory itself
    finally:
        os.chdir(cwd)
        shutil.rmtree(d, ignore_errors=True)
    return res


def run_latex_doc(src, render):
    if render == 'compile':
        return run_compile_doc(src)
    from plasTeX.TeX import TeX
    res = {'files': {}}
    cwd = os.getcwd()
    d = tempfile.mkdtemp(prefix='c17-')
    try:
        d = os.path.realpath(d)
        proj, files = write_project(d, src)
        work = os.path.join(d, 'work')
        os.chdir(work)                       # the working directory is NOT the project directory
        doc, config = new_document()
        config['files']['directory'] = work
        config['general']['load-tex-packages'] = True
        doc.userdata['working-dir'] = work
        if files:                            # file-based document: TeX(doc, file=…/proj/main.tex), files found next to it
            tex = TeX(doc, file=os.path.join(proj, 'main.tex'))
        else:
            tex = TeX(doc)
            tex.input(split_project(src)[0])
        try:
            tex.parse()
            res['xml'] = canon_text(doc.toXML().replace(d, 'TMPDIR'))
            refs = []
            for name in ('ref', 'pageref'):
                for n in doc.getElementsByTagName(name):
                    for key, target in sorted((n.idref or {}).items()):
                        t = getattr(target, 'ref', None)
                        refs.append('%s:%s->%s' % (name, key, getattr(t, 'textContent', t)))
            res['xml'] += '\n<!-- resolved references: ' + ' '.join(refs) + ' -->'
            if render:
                from plasTeX.Renderers.HTML5 import Renderer
                Renderer().render(doc)
                for f in sorted(os.listdir(work)):
                    if f.endswith('.html'):
                        res['files'][f] = canon_text(open(os.path.join(work, f), encoding='utf-8', errors='replace').read().replace(d, 'TMPDIR'))
        except Exception as e:
            res['err'] = type(e).__name__ + ': ' + str(e)[:120].replace(d, 'TMPDIR')
    finally:
        os.chdir(cwd)
        shutil.rmtree(d, ignore_errors=True)
    res['snap'] = snap_str(read_state()) + ' ' + proc_state()
    return res


class LatexGen:
    """realistic documents: sections, paragraphs, inline/display math ($, $$, \\(, \\[), nested lists, tables, boxes, labels and
    references, ifthen tests, macro and counter definitions, register reads, any-typed arguments; `leaky` adds register
    assignments, the article class and a package defining a column type; `openend` stops inside math or a list."""

    def __init__(self, rng, leaky, openend, bits='00000'):
        self.rng, self.leaky, self.openend, self.n, self.bits = rng, leaky, openend, 0, bits

    def w(self):
        self.n += 1
        return self.rng.choice(['alpha', 'beta', 'gamma', 'delta', 'lorem', 'ipsum']) + str(self.n)

    def math(self):
        return self.rng.choice(['x^2', 'a_1+b', '\\frac{1}{2}', '\\alpha', 'y', 'n\\le m', '\\hbox{if $k$}', '\\mbox{w $z$}'])

    def inline(self, depth=0):
        r = self.rng.random()
        if r < 0.26: return self.w()
        if r < 0.30: return self.switch()
        if r < 0.42: return '$%s$' % self.math()
        if r < 0.47: return '\\(%s\\)' % self.math()
        if r < 0.52: return '\\emph{%s}' % self.w()
        if r < 0.57: return '\\textbf{%s $%s$}' % (self.w(), self.math())
        if r < 0.61: return '\\hbox{%s $%s$ %s}' % (self.w(), self.math(), self.w())
        if r < 0.65: return '\\ifthenelse{%d<%d}{%s}{%s}' % (self.rng.randint(0, 5), self.rng.randint(0, 5), self.w(), self.w())
        if r < 0.69: return '\\ifthenelse{\\(1<2\\) \\and \\not \\(3<2\\)}{$%s$}{%s}' % (self.math(), self.w())
        if r < 0.71: return '\\hskip\\%s\\relax ' % self.rng.choice(SKIPREGS)
        if r < 0.73: return self.rng.choice(['\\hskip %s\\relax ' % self.rng.choice(DIMEN_SP[:-1]), '\\vspace{%s}' % self.rng.choice(DIMEN_SP[:-1]),
                                             '\\hspace*{%s}' % self.rng.choice(DIMEN_SP[:-1]), '\\kern %s\\relax ' % self.rng.choice(DIMEN_SP[:-1])])
        if r < 0.76: return '\\openout\\vout=%s ' % self.w()
        if r < 0.80: return '\\mycmd{%s}' % self.w()
        if r < 0.83: return '\\stepcounter{mycnt}\\themycnt '
        if r < 0.86: return '\\footnote{%s}' % self.w()
        if r < 0.89: return '\\index{%s}' % self.w()
        if r < 0.92: return '\\ref{L%d}' % self.rng.randrange(self.nlabels + 1)     # backward, forward and undefined references
        if r < 0.94 and self.leaky:
            i = self.rng.randrange(len(REGS))
            sp = self.rng.choice(ASSIGN_SP[FAM[i]])
            return '\\%s=%s\\relax ' % (REGS[i], sp % self.rng.randint(1, 30))
        if r < 0.96 and self.leaky:      # a register copied from another one of its family (count, dimen, glue, math glue)
            fam = self.rng.choice(FAMILIES)
            return '\\%s=\\%s\\relax ' % (REGS[self.rng.choice(fam)], REGS[self.rng.choice(fam)])
        if r < 0.97 and self.leaky: return '\\vskip\\parindent\\relax\\parindent=2\\parindent\\relax '
        return self.w()

    def switch(self):
        """TeX conditionals and the commands that set the switches they read: built-in switches (\\ifpdf with \\pdftrue/\\pdffalse),
        switches the document declares itself (\\newif, ifthen booleans), mode/number/dimension/token tests"""
        rng, a, b = self.rng, self.w(), self.w()
        k = 'abc'[rng.randrange(3)]
        return rng.choice([
            '\\ifpdf %s\\else %s\\fi ' % (a, b), '\\ifpdf %s\\else %s\\fi ' % (a, b), '\\pdftrue ', '\\pdffalse ',
            '\\ifx\\pdfoutput\\undefined %s\\else %s\\pdftrue\\fi ' % (a, b),
            '\\newif\\ifzz%s \\zz%strue \\ifzz%s %s\\else %s\\fi ' % (k, k, k, a, b), '\\ifzz%s %s\\else %s\\fi ' % (k, a, b), '\\zz%sfalse ' % k,
            '\\ifmmode %s\\else %s\\fi ' % (a, b), '\\ifnum\\value{mycnt}>1\\relax %s\\else %s\\fi ' % (a, b), '\\ifodd %d\\relax %s\\else %s\\fi ' % (rng.randint(0, 9), a, b),
            '\\ifdim\\parindent>5pt\\relax %s\\else %s\\fi ' % (a, b), '\\ifcase %d\\relax %s\\or %s\\else many\\fi ' % (rng.randint(0, 3), a, b),
            '\\iftrue %s\\else %s\\fi ' % (a, b), '\\ifx\\mycmd\\undefinedcs %s\\else %s\\fi ' % (a, b),
            '\\provideboolean{bz%s}\\setboolean{bz%s}{%s}\\ifthenelse{\\boolean{bz%s}}{%s}{%s}' % (k, k, rng.choice(['true', 'false']), k, a, b),
            '\\ifthenelse{\\isundefined{\\zz%strue}}{%s}{%s}' % (k, a, b)])

    def para(self):
        return ' '.join(self.inline() for _ in range(self.rng.randint(2, 7)))

    def block(self, depth):
        r = self.rng.random()
        if r < 0.35 or depth > 3: return self.para() + '\n\n'
        if r < 0.50:
            env = self.rng.choice(['itemize', 'enumerate', 'description'])
            items = ''.join('\\item%s %s\n' % ('[%s]' % self.w() if env == 'description' else '', self.block(depth + 1) if self.rng.random() < 0.4 else self.para())
                            for _ in range(self.rng.randint(1, 3)))
            return '\\begin{%s}\n%s\\end{%s}\n' % (env, items, env)
        if r < 0.58: return '$$%s$$\n' % self.math()
        if r < 0.64: return '\\[%s\\]\n' % self.math()
        if r < 0.70: return '\\begin{equation}%s\\end{equation}\n' % self.math()
        if r < 0.80:
            cols = [self.rng.choice(['l', 'c', 'r', 'p{2cm}', 'Z' if self.rng.random() < 0.3 else 'c']) for _ in range(self.rng.randint(1, 3))]
            rows = '\\\\\n'.join(' & '.join(self.inline() for _ in cols) for _ in range(self.rng.randint(1, 3)))
            return '\\begin{tabular}{%s}\n%s\n\\end{tabular}\n\n' % (('|' if self.rng.random() < 0.3 else '').join(cols), rows)
        if r < 0.83: return '\\begin{quote}%s\\end{quote}\n' % self.para()
        if r < 0.86: return '\\begin{center}%s\\end{center}\n' % self.para()
        if r < 0.89: return '\\begin{figure}%s\\caption{%s}\\end{figure}\n' % (self.para(), self.w())
        return self.family_block()

    def family_block(self):
        """environments that come in families of derived classes with their own nested macros (row terminators, captions,
        items): numbered/unnumbered equation arrays, the array/tabular/tabular*/longtable family, bibliographies, floats, amsmath"""
        rng = self.rng
        kinds = ['eqnarray', 'eqnarray*', 'array', 'tabular*', 'thebibliography', 'table', 'minipage', 'verbatim', 'tabbing']
        if 'longtable' in self.pkgs: kinds += ['longtable', 'longtable']
        if 'amsmath' in self.pkgs: kinds += ['align', 'align*', 'gather', 'multline*', 'cases']
        k = rng.choice(kinds)
        rows = rng.randint(1, 4)
        if k in ('eqnarray', 'eqnarray*', 'align', 'align*', 'gather'):
            labs, lines = [], []
            for i in range(rows):
                lab = ''
                if rng.random() < 0.6 and not k.endswith('*'):
                    self.neq += 1
                    labs.append('E%d' % self.neq)
                    lab = '\\label{E%d}' % self.neq
                sep = ' & = & ' if k.startswith('eqnarray') else ' & = ' if k.startswith('align') else ' = '
                lines.append('%s%s%s %s' % (self.math(), sep, self.math(), lab))
            refs = ' '.join('\\ref{%s}' % l for l in labs)
            return '\\begin{%s}\n%s\n\\end{%s}\nRows %s.\n\n' % (k, ' \\\\\n'.join(lines), k, refs)
        if k in ('multline*', 'cases'):
            body = ' \\\\ '.join('%s & %s' % (self.math(), self.w()) if k == 'cases' else self.math() for _ in range(rows))
            return ('$$x = \\begin{cases}%s\\end{cases}$$\n' if k == 'cases' else '\\begin{multline*}%s\\end{multline*}\n') % body
        if k == 'array':
            return '$$\\begin{array}{lc}%s\\end{array}$$\n' % ' \\\\ '.join('%s & %s' % (self.math(), self.math()) for _ in range(rows))
        if k == 'tabular*':
            return '\\begin{tabular*}{5cm}{l|r}\n%s\n\\end{tabular*}\n\n' % ' \\\\ \\hline\n'.join('%s & %s' % (self.w(), self.inline()) for _ in range(rows))
        if k == 'longtable':
            head = '\\caption{%s}\\\\\n\\hline %s & %s \\\\ \\hline\n\\endhead\n' % (self.w(), self.w(), self.w()) if rng.random() < 0.7 else ''
            return '\\begin{longtable}{l|c}\n%s%s\n\\end{longtable}\n\n' % (head, ' \\\\\n'.join('%s & %s' % (self.w(), self.inline()) for _ in range(rows)))
        if k == 'thebibliography':
            items = ''.join('\\bibitem{B%d} %s\n' % (i, self.para()) for i in range(rows))
            return 'See \\cite{B0}.\n\\begin{thebibliography}{9}\n%s\\end{thebibliography}\n' % items
        if k == 'table':
            self.neq += 1
            return ('\\begin{table}\\caption{%s}\\label{E%d}\\begin{tabular}{ll}%s & %s\\\\ %s & %s\\end{tabular}\\end{table}\nTable \\ref{E%d}.\n\n'
                    % (self.w(), self.neq, self.w(), self.w(), self.w(), self.inline(), self.neq))
        if k == 'minipage':
            return '\\begin{minipage}{4cm}%s\\footnote{%s}\\end{minipage}\n\n' % (self.para(), self.w())
        if k == 'verbatim':
            return '\\begin{verbatim}\n%s $x$ \\item {\n\\end{verbatim}\n' % self.w()
        return '\\begin{tabbing}%s \\= %s \\\\ %s \\> %s\\end{tabbing}\n' % (self.w(), self.w(), self.w(), self.w())

    def make(self):
        rng = self.rng
        self.labels = []
        self.nlabels = rng.randint(0, 4)
        self.neq = 0
        cls = rng.choice(['book', 'report', 'article'] if self.leaky or self.bits[3] == '1' else ['book', 'report'])
        pre = '\\documentclass{%s}\n\\usepackage{ifthen}\n' % cls
        if self.leaky and rng.random() < 0.4:
            pre += '\\usepackage{verifcol}\\verifnewcol{Z}\n'
        self.pkgs = [p for p in ['amsmath', 'graphicx', 'color', 'hyperref', 'longtable', 'array', 'makeidx', 'natbib'] if rng.random() < 0.2]
        pre += ''.join('\\usepackage{%s}\n' % p for p in self.pkgs)
        pre += '\\newcommand{\\mycmd}[1]{[#1]}\\newcounter{mycnt}\n'
        if rng.random() < 0.3:
            pre += '\\title{%s}\\author{%s}\n' % (self.w(), self.w())
        body = []
        secs = (['chapter'] if cls != 'article' else []) + ['section', 'subsection']
        for _ in range(rng.randint(1, 6)):
            if rng.random() < 0.45 and len(self.labels) < self.nlabels:
                lab = 'L%d' % len(self.labels)
                self.labels.append(lab)
                body.append('\\%s{%s}\\label{%s}\n' % (rng.choice(secs), self.w() + (' $%s$' % self.math() if rng.random() < 0.2 else ''), lab))
            body.append(self.block(0))
        if rng.random() < 0.2:
            body.append('\\appendix\\%s{%s}\n%s' % (secs[0], self.w(), self.para()))
        if rng.random() < 0.3:
            body.append('\\tableofcontents\n')
        if rng.random() < 0.3:
            body.append('\\printindex\n')
        # a project: files next to main.tex that it reads by relative name (the same few names in every project, other contents)
        files = {}
        if rng.random() < 0.45:
            for name in rng.sample(['intro', 'part1', 'body'], rng.randint(1, 2)):
                files[name + '.tex'] = '%s %s\n\n%s' % (name, self.para(), self.block(2) if rng.random() < 0.5 else '')
                body.insert(rng.randint(0, len(body)), '\\input{%s}\n' % (name if rng.random() < 0.7 else name + '.tex'))
        if rng.random() < 0.15:
            files['mystyle.sty'] = '\\newcommand{\\projname}{%s}\\newcommand{\\projmark}[1]{<#1:%s>}\n' % (self.w(), self.w())
            pre += '\\usepackage{mystyle}\n'
            body.append('Project \\projname\\ \\projmark{%s}.\n\n' % self.w())
        if rng.random() < 0.15:
            files['fig.png'] = 'PNG ' + self.w()
            if 'graphicx' not in self.pkgs:
                pre += '\\usepackage{graphicx}\n'
            body.append('\\includegraphics{fig}\n\n')
        if 'natbib' in self.pkgs and rng.random() < 0.7:
            who, year = self.w(), 1990 + rng.randint(0, 30)
            files['main.aux'] = ('\\relax\n\\citation{N1}\n\\bibdata{refs}\n\\bibcite{N1}{{1}{%d}{{%s}}{{}}}\n\\bibstyle{plainnat}\n' % (year, who))
            files['main.bbl'] = ('\\begin{thebibliography}{1}\n\\bibitem[%s(%d)]{N1}\n%s.\n\\newblock %s.\n\\end{thebibliography}\n'
                                 % (who, year, who, self.w()))
            body.append('As shown by \\citet{N1}, and later \\citep{N1}.\n\\bibliographystyle{plainnat}\n\\bibliography{refs}\n')
        elif rng.random() < 0.15:
            files['main.bbl'] = '\\begin{thebibliography}{9}\n\\bibitem{B0} %s\n\\bibitem{K1} %s\n\\end{thebibliography}\n' % (self.para(), self.w())
            body.append('As shown in \\cite{K1}.\n\\bibliography{refs}\n')
        src = pre + '\\begin{document}\n' + ''.join(body)
        src = ''.join('%s%s\n%s%s%%%%C17END\n' % (FILE_MARK, n, files[n], '' if files[n].endswith('\n') else '\n') for n in sorted(files)) + src
        if self.openend:
            src += rng.choice(['text $x+', '\\begin{itemize}\\item a \\begin{enumerate}\\item b', 'a $$y', '\\hbox{q $z', '\\begin{enumerate}\\item $x',
                               '\\(x', '\\begin{description}\\item[a] b\n'])
        else:
            src += '\\end{document}\n'
        return src


def compare_docs(a, b):
    if a.get('err') or b.get('err'):
        return None if a.get('err') == b.get('err') else 'exception differs: %r vs alone %r' % (a.get('err'), b.get('err'))
    if a['xml'] != b['xml']:
        return 'toXML() differs from the document processed alone in a fresh interpreter'
    if a['files'] and b['files'] and a['files'] != b['files']:
        bad = sorted(f for f in set(a['files']) | set(b['files']) if a['files'].get(f) != b['files'].get(f))
        return 'rendered file(s) %s differ from the document processed alone in a fresh interpreter' % ', '.join(bad[:3])
    return None


def first_diff(x, y):
    i = next((i for i, (p, q) in enumerate(zip(x, y)) if p != q), min(len(x), len(y)))
    return {'after_history': x[max(0, i - 80):i + 120], 'alone': y[max(0, i - 80):i + 120]}


_alone = {}


def check_history(srcs, render, init_snap):
    """srcs = [A1..Ak, B]; returns (why, details) or (None, None)"""
    bits = variant_bits()
    seq = run_worker({'kind': 'latex', 'bits': bits, 'docs': [{'src': s, 'render': render} for s in srcs]})
    for i, s in enumerate(srcs):
        key = (s, render)
        if key not in _alone:
            _alone[key] = run_worker({'kind': 'latex', 'bits': bits, 'docs': [{'src': s, 'render': render}]})[0]
        alone = _alone[key]
        # no attribute of any plasTeX class and no plasTeX module global may change while a document is processed
        # (apart from the recorded known findings): checked for the document in the history and for the document alone
        for r, where in ((seq[i], 'in the history'), (alone, 'alone in a fresh interpreter')):
            if r.get('classdiff'):
                return ('document %d of %d (%s): interpreter-wide state (class attributes / module globals) changed while it was processed: %s'
                        % (i + 1, len(srcs), where, ' ; '.join(r['classdiff'][:4]))), {}
        why = compare_docs(seq[i], alone)
        if why:
            det = first_diff(seq[i].get('xml', ''), alone.get('xml', '')) if seq[i].get('xml') != alone.get('xml') else {}
            return 'document %d of %d: %s' % (i + 1, len(srcs), why), det
        # the in-particular clause: class-level state after every document but the (possibly leaky) last one
        # (for the last document, which may assign registers / load article / define column types, those three fields are left open)
        loose = (lambda x: re.sub(r' (regs|ix|cols)=\S+', '', x)) if i == len(srcs) - 1 else (lambda x: x)
        if loose(seq[i]['snap']) != loose(init_snap):
            return 'class-level state after document %d differs from its initial value: %s (initial %s)' % (i + 1, seq[i]['snap'], init_snap), {}
    return None, None


def pair_checks(ctx, rng, n, n_render):
    from concurrent.futures import ThreadPoolExecutor
    init_snap = snap_str(K()['init']) + ' ' + PROC0
    bits = variant_bits()
    jobs = []
    for i in range(n):
        k = rng.choice([1, 1, 2, 2, 3, 4])
        hist = [LatexGen(rng, False, rng.random() < 0.35, bits).make() for _ in range(k)]
        b = LatexGen(rng, rng.random() < 0.5, rng.random() < 0.15, bits).make()
        if rng.random() < 0.15:
            b = rng.choice(hist)        # the same input twice
        # entry point: the API without rendering, the API with the HTML5 renderer, or plasTeX.Compile.run on a file
        jobs.append((hist + [b], True if i < n_render else 'compile' if i < n_render + n_render // 2 else False))
    da, db = dense_project('Alpha', 1994), dense_project('Beta', 2001)
    jobs += [([da, db], True), ([db, db], False), ([da, db], 'compile')]        # fixed histories: every mechanism, every run
    viol, samples, distinct = [], [], set()
    with ThreadPoolExecutor(max_workers=min(12, os.cpu_count() or 4)) as ex:
        results = list(ex.map(lambda j: check_history(j[0], j[1], init_snap), jobs))
    for (srcs, render), (why, det) in zip(jobs, results):
        if any(t in srcs[-1] for t in ('$', '\\begin{itemize}', '\\begin{enumerate}', '\\begin{tabular}')):
            distinct.add('\x00'.join(srcs))
        if len(samples) < 2:
            samples.append({'history': srcs[:-1], 'B': srcs[-1], 'rendered': render, 'result': why or 'same as alone'})
        if why and not viol:
            srcs2 = shrink_history(srcs, render, init_snap)
            why2, det2 = check_history(srcs2, render, init_snap)
            viol.append(Violation('document level (pair): ' + (why2 or why), {
                'kind': 'failing-input', 'extra': {'stream': 'pair', 'documents': srcs2, 'render': render}, 'why': why2 or why, 'diff': det2 or det}))
    return viol, {'evaluations': sum(len(j[0]) + 1 for j in jobs), 'distinct_nontrivial': len(distinct), 'samples': samples,
                  'stream': 'pair', 'histories': len(jobs), 'rendered_histories': sum(1 for j in jobs if j[1])}


def shrink_history(srcs, render, init_snap):
    """drop earlier documents while B still differs"""
    cur = list(srcs)
    i = 0
    while len(cur) > 2 and i < len(cur) - 1:
        cand = cur[:i] + cur[i + 1:]
        why, _ = check_history(cand, render, init_snap)
        if why:
            cur = cand
        else:
            i += 1
    return cur


def dense_project(tag, year):
    """a fixed project that uses every file-reading and table/list/math mechanism at once (same job name `main`, same relative file
    names in every project, contents depending on `tag`): run in every check so that no mechanism depends on the seed to be exercised"""
    files = {
        'intro.tex': 'Introduction of %s with $x_%s$ and \\emph{%s}.\n' % (tag, tag, tag),
        'mystyle.sty': '\\newcommand{\\projname}{%s}\n' % tag,
        'fig.png': 'PNG ' + tag,
        'main.aux': '\\relax\n\\citation{N1}\n\\bibdata{refs}\n\\bibcite{N1}{{1}{%d}{{Author%s}}{{}}}\n\\bibstyle{plainnat}\n' % (year, tag),
        'main.bbl': '\\begin{thebibliography}{1}\n\\bibitem[Author%s(%d)]{N1}\nAuthor%s.\n\\newblock Title %s.\n\\end{thebibliography}\n' % (tag, year, tag, tag),
    }
    main = ('\\documentclass{article}\n\\usepackage{ifthen}\\usepackage{natbib}\\usepackage{graphicx}\\usepackage{longtable}\\usepackage{amsmath}\\usepackage{mystyle}\n'
            '\\newcommand{\\mycmd}[1]{[#1]}\\newcounter{mycnt}\n' + ('\\pdftrue ' if tag == 'Alpha' else '') + '\\begin{document}\n\\section{One %s}\\label{L0}\n\\input{intro}\nFormat \\ifpdf PDF\\else EPS\\fi. Project \\projname, see \\ref{L1} and \\ref{E2}.\n'
            'As shown by \\citet{N1}, and later \\citep{N1}.\n\n\\includegraphics{fig}\n\n'
            '\\begin{eqnarray}a & = & b \\label{E1} \\\\ c & = & d \\label{E2}\\end{eqnarray}\n\\begin{eqnarray*}x & = & y\\end{eqnarray*}\n'
            '\\begin{align}a &= b \\\\ c &= d\\end{align}\n'
            '\\begin{tabular}{l|c|p{2cm}}a & $b$ & c\\\\ \\hline d & e & f\\end{tabular}\n\n'
            '\\begin{longtable}{lc}\\caption{Cap %s}\\\\ h & h \\\\ \\endhead x & y \\\\ z & w\\end{longtable}\n'
            '\\begin{enumerate}\\item a \\begin{itemize}\\item b $z$\\end{itemize}\\item c\\end{enumerate}\n'
            '\\section{Two}\\label{L1}\n\\ifthenelse{\\(1<2\\) \\and \\not \\(3<2\\)}{yes $y$}{no} \\hbox{q $z$ r} \\openout\\vout=f \\hskip 1truein\\relax \\vskip\\parskip\\relax\n'
            '\\stepcounter{mycnt}\\themycnt\\ \\footnote{F %s} \\index{%s}\n\\bibliographystyle{plainnat}\n\\bibliography{refs}\n\\printindex\n\\end{document}\n' % (tag, tag, tag, tag))
    return ''.join('%s%s\n%s%%%%C17END\n' % (FILE_MARK, n, files[n]) for n in sorted(files)) + main


LATEX_WITNESS = {
    'D6c-register': ['\\documentclass{book}\\begin{document}\\parindent=7pt\\relax a\\end{document}\n',
                     '\\documentclass{book}\\begin{document}a\\hskip\\parindent\\relax b\\end{document}\n'],
    'D6d-article-class': ['\\documentclass{article}\\begin{document}a\\end{document}\n',
                          '\\documentclass{book}\\begin{document}\\chapter{One}a\\index{x}\\printindex\\end{document}\n'],
    'D6e-column-type': ['\\documentclass{book}\\usepackage{verifcol}\\verifnewcol{Z}\\begin{document}a\\end{document}\n',
                        '\\documentclass{book}\\begin{document}\\begin{tabular}{Z}a\\end{tabular}\\end{document}\n'],
}


def extra_checks(ctx):
    rng = _random.Random(ctx.seed * 13 + 5)
    n, nr = (70, 30) if ctx.tier == 'quick' else (700, 300)
    viol, stats = pair_checks(ctx, rng, n, nr)
    vviol, vstats = vocab_checks(ctx, rng)
    stats['evaluations'] += vstats['evaluations']
    stats['vocabulary_swept'] = '%d of %d commands' % (vstats['evaluations'], vstats['vocabulary'])
    return viol + vviol, stats


def replay_extra(ctx, extra):
    if extra.get('stream') == 'vocab':
        res = run_worker({'kind': 'vocab', 'names': extra['names'], 'bits': variant_bits()})
        print('replay vocab:', res or 'holds')
        return bool(res)
    init_snap = snap_str(K()['init']) + ' ' + PROC0
    why, det = check_history(extra['documents'], extra.get('render', False), init_snap)
    print('replay pair:', why or 'holds', json.dumps(det or {})[:600])
    return bool(why)
