"""C16 - configuration values come from defaults, files and command line in that order.

streams (one driver request = one whole layering; every directive is one word, fields separated by `/`)
  cfg : the live option table (defaultConfig() + collect_renderer_config, regenerated into Generated/Config.lean on every run);
        0-3 INI files (really written and read by configparser) + a command line (really parsed by argparse) through the
        real `plasTeX.client.main` (only `run` is replaced by a function that captures the config);
        observation = config[section][key] and section.get(key, default) of every option, and get() of an unknown key.
  tab : the same with a random small option table carried in the request (`opt/...` words) built from the real option classes:
        ties the model for *every* table the theorems quantify over (several dictionary options per section, equal keys in
        different sections, booleans with and without a `!` flag, several option strings).
  hist: histories on ONE mutable ConfigManager (live table and random tables): read(file), updateFromDict(parse_args(argv)) and
        assignments config[s][k] = v in any order, with a read-back of every option (item and get) in between; the expected value at
        every read-back is the spec's denotation of the steps so far, references resolved against the values of that moment.
  main: raw command-line words through the real client.main in a directory holding the named files: -c/--config options in any
        position and order (a file twice, a missing file), the document anywhere, option strings with their words; ~12% malformed
        (no/two documents, the document swallowed by nargs='*', -c without a word).  The model reads the words itself (splitArgv).
  one : systematic sweep option x source (file1, file2, cli, file+cli) x value class over the live table (one option touched).
"""
import os, io, sys, json, zlib, tempfile, shutil, contextlib, logging
from decimal import Decimal
import extract
from framework import Case, Violation

ID = 'C16'
LEAN_MODULE = 'PlasVerif.Properties.C16'
LEVEL_TEXT = ('Lean 4 theorems over a line-by-line model of ConfigManager.read / setFromString / updateFromDict / ConfigSection.__getitem__ / '
              'InterpolationWrapper and the order of client.main, for EVERY option table with distinct section/key pairs, every list of '
              'configuration files (any number, any lines) and every command line. Both directions are proved: run_refines_den (whenever the '
              'layering finishes, each option holds the value the property prescribes: scalars cli > last file > default, lists extended, '
              'dictionaries updated per key, unknown keys routed to the first dictionary option of the section) and run_defined_on_domain (inside '
              'the domain - every scalar value converts, every occurrence is a registered option string of the right arity/type, every denotation '
              'defined - parse_args, read and updateFromDict raise nothing); layering_exact_on_domain combines them, and model_meets_spec_oracle '
              'extends it through reading back (wherever the executable spec oracle, with its own format-string parser, is defined, '
              'config[section][key] of the model returns exactly that value - the comparison the driver makes, for all inputs). Clauses as '
              'separate theorems: default_when_untouched(_model), file_replaces_scalar, later_file_wins, file_extends_list, '
              'later_file_extends_list, file_extends_dict, cli_overrides_files, cli_extends_list, cli_applied_after_files, '
              'den_depends_only_on_own_sources, occurrence_belongs_to_one_option, known_key_sets_its_option, unknown_key_routed_to_first_dict, '
              'unknown_key_ignored_without_dict, line_concerns_one_option, bool_words (setFromString accepts exactly yes/true/on/1 and '
              'no/false/off/0, any case), bool_flag_pair, interp_substitutes (every format string of literal text, %%, %(name)s), interp_percent, '
              'interp_no_percent, readBack_format, readBack_meets_oracle, spec_parser_sound, lookup_resolution (name resolution incl. the '
              'swallowed-KeyError quirk), updateFromDict_reads_own_occurrences (the argparse namespace is keyed by option.name: on tables with pairwise '
              'distinct dests and option strings every option reads back exactly its own occurrences; shared_dest_counterexample otherwise; '
              'table_dests_distinct re-checked on the live table), get_is_getitem / get_default_on_keyerror (section.get), history_defined_on_domain / history_exact_on_domain (a history inside the '
              'domain raises nothing), parse_args_recovers_pieces / main_is_layering / main_meets_den / main_needs_one_document (client.main on raw '
              'words: config files are read in the order of their -c/--config options, wherever they stand, then the command line), history_no_stale_readback / history_readback_current / '
              'history_observation_count (layers and assignments in any order with read-backs in between: every observed state is the '
              'denotation of the steps before it, so a read-back always uses the current values), interp_terminates_acyclic (no RecursionError when references are ranked), and the type-appropriate-value '
              'round trips int_written_is_read, float_written_is_read, words_written_are_read, dict_entry_written_is_read, file_sets_int, '
              'file_sets_bool (what str() prints / blank-joined words / k=v entries are read back as the same value); asIs_counterexample is the '
              'kernel-checked D3 witness for the pinned code. The live option table (all sections incl. html5 and mathjax-macros) is regenerated '
              'on every run and table_wf / table_defaults_typed / table_flags_distinct / live_table_layering are re-checked on it. '
              'argparse/configparser/shlex/int()/float()/dict assignment themselves are carried by the correspondence streams through the real client.main.')
LEVEL_NOTE = ('Trusted: Lean kernel (axioms propext, Classical.choice, Quot.sound only), the translator (probes defaultConfig()), the correspondence '
              'harness and its generators, CPython, configparser, argparse, shlex. Modelled not verified: numeric literals beyond plain decimals, '
              'non-ASCII case folding, % conversions other than %(name)s and %%, logging side effects.')
TECHNIQUE = 'Lean 4 proof (fold invariants per option, refinement to a per-option denotation) + regenerated option table + differential correspondence through client.main'
TRUSTED = ['configparser (key lower-casing, value stripping), argparse (dest collection, store_true/store_false/append), shlex.split, int(), float(), '
           'dict assignment and str % mapping are library behaviour: modelled on the restricted input language and tied by the cfg/tab streams only']
ASSUMPTIONS = ['file lines are simple `key = value` lines, one per key and section and file; words are ASCII without quotes/backslashes',
               'floats are plain decimals with <= 6 significant digits (compared exactly as decimals); no negative zero',
               '%-conversions other than %(name)s and %% are outside the property; generated values carry at most one reference (two on tables of <= 12 options), list items refer only to int/bool/float options, so read-back sizes stay linear']
RULE = ('layerings generated from the seed: 0-3 files + command line, every option independently present/absent with type-appropriate values '
        '(~15% malformed), over the live table and over random tables; plus the sweep option x source x value class; non-trivial = spec defined '
        'and at least one option differs from its default; distinct = distinct driver request line')
EXHAUSTIVE = {}
CASE_TIMEOUT = 20

logging.disable(logging.CRITICAL)

# ---------------------------------------------------------------- encoding

def enc_s(s):
    return 's' + '.'.join(str(ord(c)) for c in s)


def dec_s(w):
    assert w[0] == 's', w
    return ''.join(chr(int(x)) for x in w[1:].split('.')) if len(w) > 1 else ''


def dec_norm(v):
    """float -> (m, e) with value m/10^e, e minimal"""
    d = Decimal(repr(float(v)))
    if d != d or d in (Decimal('inf'), Decimal('-inf')):
        raise ValueError('non-finite float')
    sign, digits, exp = d.as_tuple()
    m = int(''.join(map(str, digits)) or '0')
    if exp > 0:
        m *= 10 ** exp; exp = 0
    e = -exp
    while e > 0 and m % 10 == 0:
        m //= 10; e -= 1
    if m == 0:
        e = 0
    return (-m if sign else m), e


def enc_atom(v):
    if isinstance(v, bool): return 'b1' if v else 'b0'
    if isinstance(v, int): return 'i%d' % v
    if isinstance(v, float): return 'f%d:%d' % dec_norm(v)
    if isinstance(v, str): return enc_s(v)
    raise ValueError('atom %r' % (v,))


def enc_val(v):
    if isinstance(v, list):
        return 'l' + ','.join(enc_s(x) for x in v)
    if isinstance(v, dict):
        items = sorted(v.items(), key=lambda kv: [ord(c) for c in kv[0]])
        return 'd' + ','.join(enc_s(k) + '=' + enc_atom(x) for k, x in items)
    return enc_atom(v)


def lean_str(s):
    return '[' + ', '.join(str(ord(c)) for c in s) + ']'


def lean_atom(v):
    if isinstance(v, bool): return '.bool ' + ('true' if v else 'false')
    if isinstance(v, int): return '.int (%d)' % v
    if isinstance(v, float): return '.flt (%d) %d' % dec_norm(v)
    if isinstance(v, str): return '.str ' + lean_str(v)
    raise ValueError(v)


def lean_val(v):
    if isinstance(v, list):
        return '.list [' + ', '.join(lean_str(x) for x in v) + ']'
    if isinstance(v, dict):
        return '.dict [' + ', '.join('(%s, %s)' % (lean_str(k), lean_atom(x)) for k, x in v.items()) + ']'
    return '.atom (%s)' % lean_atom(v)


# ---------------------------------------------------------------- the live table (translator)

def live_config():
    from plasTeX.Config import defaultConfig
    from plasTeX import client
    config = defaultConfig()
    if hasattr(client, 'collect_renderer_config'):
        client.collect_renderer_config(config)
    return config


def classify(o):
    """(ty word, flags, noflags) of a live option object"""
    from plasTeX import ConfigManager as CM
    opts = list(o.options)
    if isinstance(o, CM.BooleanOption):
        return 'bool', [x for x in opts if x[0] != '!'], [x[1:] for x in opts if x[0] == '!']
    if isinstance(o, CM.MultiStringOption):
        return 'list', opts, []
    if isinstance(o, CM.DictOption):
        probe = type(o).entryFromString('7')
        t = {str: 'str', int: 'int', float: 'flt'}.get(type(probe))
        if t is None:
            raise ValueError('entry type of %s' % o.name)
        if 'updateFromDict' in type(o).__dict__:
            if t != 'str':
                raise ValueError('links-like option with entry type %s' % t)
            return 'Lstr', opts, []
        return 'd' + t, opts, []
    vt = o.valueType()
    t = {str: 'str', int: 'int', float: 'flt'}.get(vt)
    if t is None:
        raise ValueError('value type %r of %s' % (vt, o.name))
    return t, opts, []


LEAN_TY = {'str': '.atom .str', 'int': '.atom .int', 'flt': '.atom .flt', 'bool': '.atom .bool', 'list': '.list',
           'dstr': '.dict .str false', 'dint': '.dict .int false', 'dflt': '.dict .flt false', 'Lstr': '.dict .str true'}


def live_table():
    """[(sec, key, ty, default, flags, noflags, dest)] in config order; dest = option.name, the argparse dest that
    registerArgparse registers and updateFromDict reads back (recorded as found: shared dests are the model's business)"""
    config = live_config()
    rows = []
    for sec, section in config.items():
        for key, o in section.data.items():
            ty, fl, nfl = classify(o)
            dest = o.name
            for s in [sec, key, dest] + fl + nfl:
                if not isinstance(s, str) or not s or any(ord(c) < 33 or ord(c) > 126 or c in '/,=' for c in s):
                    raise ValueError('unexpected characters in %r' % (s,))
            rows.append((sec, key, ty, o.value, fl, nfl, dest))
    return rows


_table = {}


def table_from_lean():
    """the last generated table, read back from Generated/Config.lean (used when the live objects cannot be built)"""
    import re as _re
    from framework import LEAN
    src = open(os.path.join(LEAN, 'PlasVerif', 'Generated', 'Config.lean')).read()
    rows = []
    for m in _re.finditer(r'^  -- ROW (.*)$', src, _re.M):
        sec, key, ty, d, fl, nfl, dest = json.loads(m.group(1))
        rows.append((sec, key, ty, dec_val(d), fl, nfl, dest))
    return rows


def table():
    if 'rows' not in _table:
        try:
            _table['rows'] = live_table()
        except Exception:
            _table['rows'] = table_from_lean()
    return _table['rows']


def gen_config():
    rows = live_table()
    _table['rows'] = rows
    body = []
    for sec, key, ty, d, fl, nfl, dest in rows:
        body.append('  -- [%s] %s : %s  %s  (dest %s)\n  -- ROW %s' % (sec, key, ty, ' '.join(fl + ['!' + x for x in nfl]), dest,
                                                                    json.dumps([sec, key, ty, enc_val(d), fl, nfl, dest])))
        body.append('  ⟨%s, %s, %s, %s, %s, [%s], [%s]⟩' % (lean_str(sec), lean_str(key), lean_str(dest), LEAN_TY[ty], lean_val(d),
                                                          ', '.join(lean_str(x) for x in fl), ', '.join(lean_str(x) for x in nfl)))
    lines = []
    for i in range(0, len(body), 2):
        lines.append(body[i] + '\n' + body[i + 1] + (',' if i + 2 < len(body) else ''))
    src = (extract.HEADER % ('plasTeX/Config.py defaultConfig() + plasTeX/client.py collect_renderer_config (live objects)', 'probed') +
           'import PlasVerif.Model.Config\nnamespace PlasVerif.Generated.Config\nopen PlasVerif.Model.Config\n'
           '/-! the option table: section, key, argparse dest, type, default, option strings, `!`-option strings; strings as code points -/\n'
           'def table : Table := [\n' + '\n'.join(lines) + '\n]\nend PlasVerif.Generated.Config\n')
    return 'PlasVerif/Generated/Config.lean', src, 'probed'


GENERATED = [gen_config]

# ---------------------------------------------------------------- request lines

def line_of(tab, files, argv):
    """tab: None or rows; files: [[(sec, [(k, v)])]]; argv: [(flag, [args])]"""
    ws = []
    for sec, key, ty, d, fl, nfl, dest in (tab or []):
        ws.append('/'.join(['opt', enc_s(sec), enc_s(key), ty, enc_val(d), ','.join(map(enc_s, fl)), ','.join(map(enc_s, nfl)), enc_s(dest)]))
    for f in files:
        ws.append('file')
        for sec, items in f:
            ws.append('sec/' + enc_s(sec))
            for k, v in items:
                ws.append('kv/%s/%s' % (enc_s(k), enc_s(v)))
    for flag, args in argv:
        ws.append('/'.join(['occ', enc_s(flag)] + [enc_s(a) for a in args]))
    return ' '.join(ws)


def hist_line(tab, steps):
    """steps: ('read', file) | ('cli', argv) | ('set', sec, key, value) | ('obs',)"""
    ws = []
    for sec, key, ty, d, fl, nfl, dest in (tab or []):
        ws.append('/'.join(['opt', enc_s(sec), enc_s(key), ty, enc_val(d), ','.join(map(enc_s, fl)), ','.join(map(enc_s, nfl)), enc_s(dest)]))
    for st in steps:
        if st[0] == 'read':
            ws.append('file')
            for sec, items in st[1]:
                ws.append('sec/' + enc_s(sec))
                for k, v in items:
                    ws.append('kv/%s/%s' % (enc_s(k), enc_s(v)))
        elif st[0] == 'cli':
            ws.append('cli')
            for flag, args in st[1]:
                ws.append('/'.join(['occ', enc_s(flag)] + [enc_s(a) for a in args]))
        elif st[0] == 'set':
            ws.append('set/%s/%s/%s' % (enc_s(st[1]), enc_s(st[2]), enc_val(st[3])))
        else:
            ws.append('obs')
    return ' '.join(ws)


def parse_hist(line):
    tab, steps = [], []
    for w in line.split():
        p = w.split('/')
        if p[0] == 'opt':
            tab.append((dec_s(p[1]), dec_s(p[2]), p[3], dec_val(p[4]), [dec_s(x) for x in p[5].split(',') if x],
                        [dec_s(x) for x in p[6].split(',') if x], dec_s(p[7])))
        elif p[0] == 'file': steps.append(('read', []))
        elif p[0] == 'sec': steps[-1][1].append((dec_s(p[1]), []))
        elif p[0] == 'kv': steps[-1][1][-1][1].append((dec_s(p[1]), dec_s(p[2])))
        elif p[0] == 'cli': steps.append(('cli', []))
        elif p[0] == 'occ': steps[-1][1].append((dec_s(p[1]), [dec_s(x) for x in p[2:]]))
        elif p[0] == 'set': steps.append(('set', dec_s(p[1]), dec_s(p[2]), dec_val(p[3])))
        elif p[0] == 'obs': steps.append(('obs',))
        else: raise ValueError(w)
    return tab or None, steps


def main_line(tab, fm, words, intent):
    """fm: [(name, file)] the files that exist; words: what client.main gets; intent: None or the pieces as written: ('cfg', '-c'|'--config', name) | ('pos', word) | ('occ', flag, args)"""
    ws = []
    for sec, key, ty, d, fl, nfl, dest in (tab or []):
        ws.append('/'.join(['opt', enc_s(sec), enc_s(key), ty, enc_val(d), ','.join(map(enc_s, fl)), ','.join(map(enc_s, nfl)), enc_s(dest)]))
    for name, f in fm:
        ws.append('cf/' + enc_s(name))
        for sec, items in f:
            ws.append('sec/' + enc_s(sec))
            for k, v in items:
                ws.append('kv/%s/%s' % (enc_s(k), enc_s(v)))
    for w in words:
        ws.append('w/' + enc_s(w))
    if intent is not None:
        ws.append('intent')
        for pc in intent:
            if pc[0] == 'cfg': ws.append('pc/%d/%s' % (1 if pc[1] == '--config' else 0, enc_s(pc[2])))
            elif pc[0] == 'pos': ws.append('pp/' + enc_s(pc[1]))
            else: ws.append('/'.join(['po', enc_s(pc[1])] + [enc_s(a) for a in pc[2]]))
    return ' '.join(ws)


def parse_main(line):
    tab, fm, words = [], [], []
    for w in line.split():
        p = w.split('/')
        if p[0] == 'opt':
            tab.append((dec_s(p[1]), dec_s(p[2]), p[3], dec_val(p[4]), [dec_s(x) for x in p[5].split(',') if x],
                        [dec_s(x) for x in p[6].split(',') if x], dec_s(p[7])))
        elif p[0] == 'cf': fm.append((dec_s(p[1]), []))
        elif p[0] == 'sec': fm[-1][1].append((dec_s(p[1]), []))
        elif p[0] == 'kv': fm[-1][1][-1][1].append((dec_s(p[1]), dec_s(p[2])))
        elif p[0] == 'w': words.append(dec_s(p[1]))
        elif p[0] in ('intent', 'pc', 'pp', 'po'): pass
        else: raise ValueError(w)
    return tab or None, fm, words


def dec_atom(w):
    if w[0] == 's': return dec_s(w)
    if w[0] == 'i': return int(w[1:])
    if w[0] == 'f':
        m, e = w[1:].split(':'); return float(Decimal(int(m)) / (Decimal(10) ** int(e)))
    if w == 'b1': return True
    if w == 'b0': return False
    raise ValueError(w)


def dec_val(w):
    if w[0] == 'l':
        return [dec_s(x) for x in w[1:].split(',')] if len(w) > 1 else []
    if w[0] == 'd':
        return {dec_s(e.split('=')[0]): dec_atom(e.split('=')[1]) for e in w[1:].split(',')} if len(w) > 1 else {}
    return dec_atom(w)


def parse_line(line):
    tab, files, argv = [], [], []
    for w in line.split():
        p = w.split('/')
        if p[0] == 'opt':
            tab.append((dec_s(p[1]), dec_s(p[2]), p[3], dec_val(p[4]), [dec_s(x) for x in p[5].split(',') if x],
                        [dec_s(x) for x in p[6].split(',') if x], dec_s(p[7])))
        elif p[0] == 'file': files.append([])
        elif p[0] == 'sec': files[-1].append((dec_s(p[1]), []))
        elif p[0] == 'kv': files[-1][-1][1].append((dec_s(p[1]), dec_s(p[2])))
        elif p[0] == 'occ': argv.append((dec_s(p[1]), [dec_s(x) for x in p[2:]]))
        else: raise ValueError(w)
    return tab or None, files, argv


# ---------------------------------------------------------------- generation

WORDCH = 'abcdefghijklmnopqrstuvwxyzABCDEFGHXYZ0123456789'
SAFEP = '._:$@+'
BOOL_T = ['yes', 'true', 'on', '1', 'Yes', 'True', 'ON', 'TRUE']
BOOL_F = ['no', 'false', 'off', '0', 'No', 'False', 'OFF', 'FALSE']


def word(rng, lo=1, hi=6):
    n = rng.randint(lo, hi)
    s = ''.join(rng.choice(WORDCH) for _ in range(n))
    if rng.random() < 0.3:
        s += rng.choice(SAFEP) + rng.choice(WORDCH)
    return s


def int_lit(rng):
    r = rng.random()
    n = rng.choice([0, 1, 2, 7, 10, 42, 100, 65535]) if r < 0.5 else rng.randint(0, 99999)
    s = str(n)
    r = rng.random()
    if r < 0.25: s = '-' + s
    elif r < 0.32: s = '+' + s
    elif r < 0.4: s = '00' + s
    return s


def flt_lit(rng):
    s = _flt_lit(rng)
    if s.startswith('-') and float(s) == 0:      # negative zero prints as -0.0: outside the modelled decimals
        s = s[1:]
    return s


def _flt_lit(rng):
    r = rng.random()
    if r < 0.3: return int_lit(rng)
    ip = str(rng.randint(0, 999))
    fp = ''.join(rng.choice('0123456789') for _ in range(rng.randint(1, 3)))
    s = ip + '.' + fp
    if rng.random() < 0.2: s = '-' + s
    return s


def keys_for_ref(tab, rng):
    """option keys whose value is a scalar (references to them are inside the property)"""
    ks = [r[1] for r in tab if r[2] in ('str', 'int', 'bool', 'flt')]
    return ks


def str_val(rng, tab, mal):
    """a string value, possibly with %% and %(name)s.  At most one reference per value on big tables (two on tables of
    <= 12 options): every value then expands along a chain, so read-back sizes stay linear (no 2^depth blow-up)."""
    max_refs = 2 if len(tab) <= 12 else 1
    parts, nrefs = [], 0
    for _ in range(rng.randint(0, 3)):
        r = rng.random()
        if r < 0.55: parts.append(word(rng))
        elif r < 0.65: parts.append('%%')
        elif r < 0.9 and nrefs < max_refs:
            nrefs += 1
            ks = keys_for_ref(tab, rng)
            if ks and rng.random() < 0.9:
                parts.append('%(' + rng.choice(ks) + ')s')
            else:
                parts.append('%(' + rng.choice([r[1] for r in tab]) + ')s')
        else: parts.append(rng.choice(['/', '-x', ' ', '#', ';', '=', ',']) + word(rng))
    s = ''.join(parts)
    if mal and rng.random() < 0.5:
        s += rng.choice(['%', '%(abc'] + (['%(theme)', '%(nosuchkey)s'] if nrefs < max_refs else []))
    return s.strip()


def file_value(rng, tab, ty, mal):
    """text written after `key =` for an option of type ty"""
    if ty == 'str':
        return str_val(rng, tab, mal)
    if ty == 'int':
        return rng.choice(['abc', '1.5', '', '1e3', '--2', '12x']) if mal else int_lit(rng)
    if ty == 'flt':
        return rng.choice(['abc', '', '1.2.3', '--2', '.', '1,5']) if mal else flt_lit(rng)
    if ty == 'bool':
        if mal: return rng.choice(['maybe', '', '2', 'nope', 'y', 'none', 'disabled'])
        return rng.choice(BOOL_T + BOOL_F)
    if ty == 'list':
        ws = [word(rng) for _ in range(rng.randint(0, 3))]
        if rng.random() < 0.2: ws.append('%%' + word(rng))
        if rng.random() < 0.15:      # list items only refer to options that cannot refer further (lists accumulate items)
            ks = [r[1] for r in tab if r[2] in ('int', 'bool', 'flt')]
            if ks: ws.append('%(' + rng.choice(ks) + ')s')
        if mal: ws.append(rng.choice(['%', 'x%(nosuchkey)s']))
        return (' ' * rng.randint(1, 2)).join(ws)
    # dictionaries: `k=v, k=v`
    et = {'dstr': 'str', 'Lstr': 'str', 'dint': 'int', 'dflt': 'flt'}[ty]
    es = []
    for _ in range(rng.randint(1, 3)):
        es.append(rng.choice(['k1', 'k2', 'chapter', 'Sec', word(rng)]) + rng.choice(['=', ' = ']) + entry_value(rng, et, False))
    if mal:
        es.append(rng.choice(['noequals', word(rng) + '=' + entry_value(rng, et, True)]) if et != 'str' else 'noequals')
    return rng.choice([',', ', ']).join(es)


def entry_value(rng, et, mal):
    if et == 'str': return word(rng) + (rng.choice(['%', '%(x)s', '=b']) if rng.random() < 0.2 else '')
    if et == 'int': return rng.choice(['x', '1.5', '']) if mal else int_lit(rng)
    return rng.choice(['x', '1..5', '']) if mal else flt_lit(rng)


def cli_occs(rng, tab, row, mal):
    """occurrences [(flag, args)] for one option"""
    sec, key, ty, d, fl, nfl = row[:6]
    if ty == 'bool':
        n = 1 if rng.random() < 0.8 else 2
        return [(rng.choice(fl + nfl), []) for _ in range(n)]
    if ty in ('str', 'int', 'flt'):
        n = 1 if rng.random() < 0.85 else 2
        res = []
        for _ in range(n):
            v = file_value(rng, tab, ty, mal)
            if ty == 'str' and (v.startswith('-') or not v):
                v = 'w' + v
            res.append((rng.choice(fl), [v]))
        return res
    if ty == 'list':
        res = []
        for _ in range(1 if rng.random() < 0.7 else 2):
            args = [word(rng) for _ in range(rng.randint(0, 3))]
            if rng.random() < 0.15: args.append('a%%b')
            res.append((rng.choice(fl), args))
        return res
    et = {'dstr': 'str', 'Lstr': 'str', 'dint': 'int', 'dflt': 'flt'}[ty]
    res = []
    for _ in range(1 if rng.random() < 0.6 else 2):
        if ty == 'Lstr':
            n = rng.choice([2, 3]) if not mal else rng.choice([1, 4])
            res.append((rng.choice(fl), [rng.choice(['next', 'prev', word(rng)])] + [word(rng) for _ in range(n - 1)]))
        else:
            res.append((rng.choice(fl), [rng.choice(['k1', 'chapter', word(rng)]), entry_value(rng, et, mal)]))
    return res


def gen_layering(rng, tab, custom):
    """one layering over the table rows `tab`"""
    nfiles = rng.choice([0, 1, 1, 2, 2, 3, 3])
    p = rng.choice([0.03, 0.1, 0.3, 0.6])
    malformed = rng.random() < 0.15
    mal_budget = [1 if malformed else 0]

    def mal():
        if mal_budget[0] and rng.random() < 0.08:
            mal_budget[0] -= 1
            return True
        return False

    secs = []
    for r in tab:
        if r[0] not in secs: secs.append(r[0])
    files = []
    for _ in range(nfiles):
        f = []
        order = list(secs)
        if rng.random() < 0.3: rng.shuffle(order)
        for sec in order:
            items = []
            for r in tab:
                if r[0] == sec and rng.random() < p:
                    items.append((r[1], file_value(rng, tab, r[2], mal())))
            if rng.random() < p * 0.7:     # unknown keys: routed to the section's dictionary option, else ignored
                dty = next((r[2] for r in tab if r[0] == sec and r[2][0] in 'dL'), None)
                et = {'dstr': 'str', 'Lstr': 'str', 'dint': 'int', 'dflt': 'flt', None: 'str'}[dty]
                for _ in range(rng.randint(1, 2)):
                    k = rng.choice(['k1', 'k2', 'chapter', 'zz-' + ''.join(rng.choice('abcxyz019._') for _ in range(rng.randint(1, 4)))])
                    if k not in [i[0] for i in items] and not any(r[0] == sec and r[1] == k for r in tab):
                        items.append((k, entry_value(rng, et, mal())))
            if rng.random() < 0.3: rng.shuffle(items)
            if items or rng.random() < 0.05:
                f.append((sec, items))
        if rng.random() < 0.08:
            f.insert(rng.randint(0, len(f)), ('nosuchsection', [('theme', 'x'), ('k1', '1')]))
        files.append(f)
    argv = []
    for r in tab:
        if rng.random() < p:
            argv.extend(cli_occs(rng, tab, r, mal()))
    if rng.random() < 0.4: rng.shuffle(argv)
    if malformed and rng.random() < 0.1:
        argv.append(('--no-such-flag', []))
    if rng.random() < 0.05 and files:      # reference cycle (one reference per string)
        ks = [r for r in tab if r[2] == 'str']
        if len(ks) >= 2:
            a, b = rng.sample(ks, 2)
            argv.append((a[4][0], ['x%(' + b[1] + ')s']))
            argv.append((b[4][0], ['y%(' + a[1] + ')s']))
    return files, argv


def with_dest(rows):
    """complete 6-tuples by the dest the real option classes compute when the table is built"""
    try:
        config = build_config([r[:6] for r in rows])
        return [tuple(r[:6]) + (config[r[0]].data[r[1]].name,) for r in rows]
    except Exception:       # the classes cannot even be instantiated: keep the documented rule (first option string)
        return [tuple(r[:6]) + (r[4][0].lstrip('-'),) for r in rows]


def gen_table(rng):
    """a random small option table built from the real option classes"""
    nsec = rng.randint(1, 3)
    secs = ['sa', 'sb', 'sc'][:nsec]
    keys = ['alpha', 'beta', 'gamma', 'delta', 'base-url']
    rows, used, n = [], set(), 0
    for sec in secs:
        for _ in range(rng.randint(1, 4)):
            key = rng.choice(keys)
            if (sec, key) in used: continue
            used.add((sec, key))
            ty = rng.choice(['str', 'str', 'int', 'flt', 'bool', 'bool', 'list', 'dstr', 'dint', 'dflt', 'Lstr'])
            n += 1
            fl, nfl = ['--o%d' % n], []
            if rng.random() < 0.3: fl.append('--p%d' % n)
            if ty == 'bool' and rng.random() < 0.7: nfl = ['--no-o%d' % n]
            if ty == 'str': d = rng.choice(['', 'dflt', 'a%%b', 'x%(alpha)s', '%(beta)s-%(gamma)s'])
            elif ty == 'int': d = rng.choice([0, 3, -7])
            elif ty == 'flt': d = rng.choice([1.0, 0.5, 2.25])
            elif ty == 'bool': d = rng.random() < 0.5
            elif ty == 'list': d = rng.choice([[], [], ['d1'], ['d1', 'p%%q']])
            elif ty == 'dint': d = rng.choice([{}, {'k1': 5}])
            elif ty == 'dflt': d = rng.choice([{}, {'k1': 1.5}])
            else: d = rng.choice([{}, {'k1': 'v'}])
            rows.append((sec, key, ty, d, fl, nfl))
    return with_dest(rows)


def sweep_cases(rng, tab):
    """option x source x value class, one option touched per case"""
    for r in tab:
        sec, key, ty = r[0], r[1], r[2]
        if ty == 'bool': vals = BOOL_T[:4] + BOOL_F[:4] + [rng.choice(BOOL_T[4:]), rng.choice(BOOL_F[4:])]
        else: vals = [file_value(rng, tab, ty, False) for _ in range(2)]
        for v in vals:
            yield [[(sec, [(key, v)])]], []
        v1, v2 = file_value(rng, tab, ty, False), file_value(rng, tab, ty, False)
        yield [[(sec, [(key, v1)])], [(sec, [(key, v2)])]], []
        yield [[(sec, [(key, v1)])], [], [(sec, [(key, v2)])]], []
        occ = cli_occs(rng, tab, r, False)
        yield [], occ
        yield [[(sec, [(key, v1)])]], occ
        if ty == 'bool':
            for f in r[4] + r[5]:
                yield [[(sec, [(key, rng.choice(BOOL_T + BOOL_F))])]], [(f, [])]
            if r[5]:
                yield [], [(r[4][0], []), (r[5][0], [])]
                yield [], [(r[5][0], []), (r[4][0], [])]


def typed_value(rng, tab, ty):
    """a Python value of the option's class, for `config[sec][key] = value`"""
    if ty == 'str': return str_val(rng, tab, False)
    if ty == 'int': return int(int_lit(rng))
    if ty == 'flt': return float(flt_lit(rng))
    if ty == 'bool': return rng.random() < 0.5
    if ty == 'list': return [word(rng) for _ in range(rng.randint(0, 3))]
    if ty == 'dint': return {word(rng).lower(): int(int_lit(rng)) for _ in range(rng.randint(0, 2))}
    if ty == 'dflt': return {word(rng).lower(): float(flt_lit(rng)) for _ in range(rng.randint(0, 2))}
    return {word(rng).lower(): word(rng) for _ in range(rng.randint(0, 2))}


def change_step(rng, tab, row, value_text=None):
    """one step that gives option `row` a (new) value: by a file, the command line or an assignment"""
    sec, key, ty = row[0], row[1], row[2]
    how = rng.randrange(3)
    if how == 0:
        v = value_text if value_text is not None else file_value(rng, tab, ty, False)
        return ('read', [(sec, [(key, v)])])
    if how == 1:
        if value_text is not None and ty == 'str' and value_text and not value_text.startswith('-'):
            return ('cli', [(rng.choice(row[4]), [value_text])])
        if value_text is None:
            return ('cli', cli_occs(rng, tab, row, False))
    v = value_text if value_text is not None else typed_value(rng, tab, ty)
    return ('set', sec, key, v)


def gen_history(rng, tab):
    """a history: layers and assignments in any order, with read-backs in between.  Half of the histories are built around
    a reference: option A gets a value naming option B, everything is read back, B changes, everything is read back again."""
    steps = []
    if rng.random() < 0.5:
        steps.append(('obs',))
    strs = [r for r in tab if r[2] == 'str']
    scal = [r for r in tab if r[2] in ('str', 'int', 'bool', 'flt')]
    if strs and scal and rng.random() < 0.5:
        a = rng.choice(strs)
        b = rng.choice([r for r in scal if r is not a] or scal)
        text = rng.choice(['%(' + b[1] + ')s', 'x%(' + b[1] + ')s', '%(' + b[1] + ')s-%%', 'p%%q-%(' + b[1] + ')s'])
        if a is b:
            text = 'a%%b'
        steps.append(change_step(rng, tab, a, text))
        steps.append(('obs',))
        for _ in range(rng.randint(1, 2)):
            steps.append(change_step(rng, tab, b))
            if rng.random() < 0.8:
                steps.append(('obs',))
    for _ in range(rng.randint(0, 4)):
        r = rng.random()
        if r < 0.3:
            files, argv = gen_layering(rng, tab, False)
            for f in files[:2]:
                steps.append(('read', f))
                if rng.random() < 0.6: steps.append(('obs',))
            if argv and rng.random() < 0.7:
                steps.append(('cli', argv))
        else:
            steps.append(change_step(rng, tab, rng.choice(tab)))
        if rng.random() < 0.6:
            steps.append(('obs',))
    steps.append(('obs',))
    return steps


def gen_main(rng, tab):
    """a whole command line for client.main: -c/--config options (any position, any order, a file twice, a missing file),
    the positional document and the option strings with their words"""
    files, argv = gen_layering(rng, tab, False)
    fm = [('f%d.ini' % n, f) for n, f in enumerate(files)]
    order = [n for n, _ in fm]
    rng.shuffle(order)
    if order and rng.random() < 0.2: order.insert(rng.randint(0, len(order)), rng.choice(order))
    if rng.random() < 0.2: order.insert(rng.randint(0, len(order)), 'missing.ini')
    tyof = {}
    for r in tab:
        for f in r[4] + r[5]:
            tyof.setdefault(f, r[2])
    cfg_pieces = [([rng.choice(['-c', '--config']), n], 'cfg') for n in order]
    occ_pieces = [([flag] + list(args), tyof.get(flag, '?')) for flag, args in argv]
    pieces = []
    ci = oi = 0
    while ci < len(cfg_pieces) or oi < len(occ_pieces):
        if oi >= len(occ_pieces) or (ci < len(cfg_pieces) and rng.random() < 0.5):
            pieces.append(cfg_pieces[ci]); ci += 1
        else:
            pieces.append(occ_pieces[oi]); oi += 1
    ok = True
    for flag, args in argv:
        if any(a.startswith('-') and not (len(a) > 1 and (a[1].isdigit() or a[1] == '.')) for a in args):
            ok = False      # a value that argparse reads as an option string
    swallow = lambda k: k > 0 and pieces[k - 1][1] in ('list', 'Lstr', '?')
    slots = [k for k in range(len(pieces) + 1) if not swallow(k)]
    r = rng.random()
    if r < 0.88 and slots:
        k = rng.choice(slots)
        layout = pieces[:k] + [(['doc.tex'], 'pos')] + pieces[k:]
    elif r < 0.92:
        layout, ok = list(pieces), False                                    # no document
    elif r < 0.96:
        layout, ok = [(['doc.tex'], 'pos')] + pieces + [(['more.tex'], 'pos')], False
    else:
        bad = [k for k in range(len(pieces) + 1) if swallow(k)]
        k = rng.choice(bad) if bad else 0
        layout = pieces[:k] + [(['doc.tex'], 'pos')] + pieces[k:]
        ok = ok and not bad
    words = [w for p, _ in layout for w in p]
    if rng.random() < 0.03:
        words.append(rng.choice(['-c', '--config'])); ok = False            # option without its word
    if not ok:
        return fm, words, None
    intent = []
    for p, kind in layout:
        if kind == 'cfg': intent.append(('cfg', p[0], p[1]))
        elif kind == 'pos': intent.append(('pos', p[0]))
        else: intent.append(('occ', p[0], p[1:]))
    return fm, words, intent


def generate(ctx):
    rng = ctx.rng
    tab = table()
    for files, argv in sweep_cases(rng, tab):
        yield Case('one', line_of(None, files, argv))
    n = 2500 if ctx.tier == 'quick' else 15000
    for _ in range(n):
        files, argv = gen_layering(rng, tab, False)
        yield Case('cfg', line_of(None, files, argv))
    for _ in range(n * 7 // 5):
        t = gen_table(rng)
        files, argv = gen_layering(rng, t, True)
        yield Case('tab', line_of(t, files, argv))
    for _ in range(n // 3):
        fm, words, intent = gen_main(rng, tab)
        yield Case('main', main_line(None, fm, words, intent))
    for _ in range(n // 2):
        t = gen_table(rng)
        fm, words, intent = gen_main(rng, t)
        yield Case('main', main_line(t, fm, words, intent))
    for _ in range(n // 3):
        yield Case('hist', hist_line(None, gen_history(rng, tab)))
    for _ in range(n * 7 // 10):
        t = gen_table(rng)
        yield Case('hist', hist_line(t, gen_history(rng, t)))


def corpus():
    L = lambda files, argv: line_of(None, files, argv)
    T1 = [('sa', 'base-url', 'str', 'x%(nosuch)s', ['--o1'], []), ('sb', 'base-url', 'str', 'second', ['--o2'], []),
          ('sb', 'alpha', 'str', '<%(base-url)s>', ['--o3'], [])]
    T1 = with_dest(T1)
    T2 = [('sa', 'alpha', 'dint', {}, ['--o1'], []), ('sa', 'beta', 'dstr', {'k1': 'v'}, ['--o2'], []), ('sa', 'gamma', 'bool', True, ['--o3'], ['--no-o3'])]
    T2 = with_dest(T2)
    extra = []
    d = os.path.join(os.path.dirname(os.path.dirname(os.path.dirname(os.path.abspath(__file__)))), 'corpus', 'C16')
    if os.path.isdir(d):
        for f in sorted(os.listdir(d)):
            if f.endswith('.json'):
                extra.append(Case.from_json(json.load(open(os.path.join(d, f)))['case'], 'corpus'))
    return extra + [
        # D3: booleans written in a file
        Case('one', L([[('general', [('copy-theme-extras', 'no')])]], []), None, 'corpus'),
        Case('one', L([[('images', [('enabled', 'false')])]], []), None, 'corpus'),
        Case('one', L([[('html5', [('use-mathjax', 'off')])]], []), None, 'corpus'),
        Case('one', L([[('general', [('xml', '0')])]], []), None, 'corpus'),
        Case('one', L([[('general', [('xml', 'yes')])], [('general', [('xml', 'no')])]], []), None, 'corpus'),
        Case('one', L([[('general', [('load-tex-packages', 'no')])]], [('--load-tex-packages', [])]), None, 'corpus'),
        # layering
        Case('cfg', L([[('files', [('split-level', '5'), ('directory', 'out-%(split-level)s')])], [('files', [('split-level', '-1')])]],
                      [('-d', ['%(theme)s/%(renderer)s%%'])]), None, 'corpus'),
        Case('cfg', L([[('general', [('plugins', 'a b')]), ('counters', [('chapter', '3'), ('counters', 'section=2, chapter = 4')])],
                       [('general', [('plugins', 'c')])]],
                      [('--plugins', ['d', 'e']), ('--counter', ['chapter', '9']), ('--link', ['next', 'u', 't']), ('--plugins', [])]), None, 'corpus'),
        # options that share a key ([images] base-url / [document] base-url) must not share a command-line slot
        Case('one', L([[('document', [('base-url', 'http://d/')])]], [('--image-base-url', ['http://i/'])]), None, 'corpus'),
        Case('one', L([[('images', [('base-url', 'http://i/')])]], [('--base-url', ['http://d/'])]), None, 'corpus'),
        # values with %(name)s / %% read through section.get() as well
        Case('cfg', L([[('files', [('filename', '%(theme)s-page'), ('input-encoding', '%(output-encoding)s')]), ('document', [('title', '100%% %(renderer)s'), ('lang-terms', '%(split-level)s.xml x')])]],
                      [('--theme', ['mytheme']), ('--output-encoding', ['latin-1'])]), None, 'corpus'),
        # read back, change a referenced option by a later layer, read back again
        Case('hist', hist_line(None, [('read', [('general', [('theme', '%(renderer)s-theme')]), ('files', [('directory', 'out-%(split-level)s-100%%')])]), ('obs',),
                                      ('cli', [('--renderer', ['XHTML']), ('--split-level', ['4'])]), ('obs',),
                                      ('set', 'general', 'renderer', 'Text'), ('obs',)]), None, 'corpus'),
        # the order of -c/--config options on the command line is the reading order (not the order of the names)
        Case('main', main_line(None, [('f0.ini', [('general', [('xml', 'yes'), ('plugins', 'a')])]), ('f1.ini', [('general', [('xml', 'no'), ('plugins', 'b')])])],
                               ['--config', 'f1.ini', 'doc.tex', '--plugins', 'c', '-c', 'missing.ini', '-c', 'f0.ini', '-c', 'f1.ini'],
                               [('cfg', '--config', 'f1.ini'), ('pos', 'doc.tex'), ('occ', '--plugins', ['c']), ('cfg', '-c', 'missing.ini'),
                                ('cfg', '-c', 'f0.ini'), ('cfg', '-c', 'f1.ini')]), None, 'corpus'),
        Case('cfg', L([], [('--split-level', ['x'])]), None, 'corpus'),
        Case('cfg', L([[('files', [('split-level', 'x')])]], []), None, 'corpus'),
        Case('cfg', L([], [('--link', ['a'])]), None, 'corpus'),
        Case('cfg', L([], [('--title', ['a%(title)s'])]), None, 'corpus'),
        Case('cfg', L([], [('--title', ['a%'])]), None, 'corpus'),
        # KeyError raised inside a section's own interpolation moves on to the next section
        Case('tab', line_of(T1, [], []), None, 'corpus'),
        Case('tab', line_of(T2, [[('sa', [('zz', '4'), ('beta', 'a=b'), ('gamma', 'Off')])]], [('--o1', ['k', '7']), ('--o3', [])]), None, 'corpus'),
    ]


def nontrivial(o):
    if not o.spec.startswith('ok:'):
        return False
    d = _env.get('defaults_obs')
    return o.case.stream == 'tab' or d is None or o.spec != d


# ---------------------------------------------------------------- implementation side

_env = {}
DICT_CLASSES = {}


def _dict_classes():
    if not DICT_CLASSES:
        c = live_config()
        DICT_CLASSES['Lstr'] = type(c['links'].data['links'])
        DICT_CLASSES['dint'] = type(c['counters'].data['counters'])
        DICT_CLASSES['dflt'] = type(c['images'].data['scales'])
        DICT_CLASSES['dstr'] = type(c['logging'].data['logging'])
    return DICT_CLASSES


def build_config(tab):
    """a ConfigManager with the given rows, from the real option classes"""
    from plasTeX import ConfigManager as CM
    import copy
    config = CM.ConfigManager()
    cls = {'str': CM.StringOption, 'int': CM.IntegerOption, 'flt': CM.FloatOption, 'bool': CM.BooleanOption, 'list': CM.MultiStringOption}
    cls.update(_dict_classes())
    for sec, key, ty, d, fl, nfl in [r[:6] for r in tab]:
        if sec not in config:
            config.addSection(sec)
        config[sec][key] = cls[ty]('doc', options=' '.join(fl + ['!' + x for x in nfl]), default=copy.deepcopy(d))
    return config


def canon_exc(e):
    n = type(e).__name__
    return n if n in ('ValueError', 'KeyError', 'SystemExit', 'ArgumentTypeError', 'RecursionError') else 'other:' + n


def write_files(files, d, seed):
    """INI text in varying (equivalent) spellings: delimiter, blanks, key case, comments"""
    import random
    paths = []
    rng = random.Random(seed)
    for n, f in enumerate(files):
        p = os.path.join(d, 'f%d.ini' % n)
        with open(p, 'w') as fh:
            for sec, items in f:
                fh.write('[%s]\n' % sec)
                for k, v in items:
                    style = rng.randrange(5)
                    if style == 0: fh.write('%s=%s\n' % (k, v))
                    elif style == 1: fh.write('%s   =   %s  \n' % (k.upper(), v))
                    elif style == 2: fh.write('%s: %s\n' % (k, v))
                    else: fh.write('%s = %s\n' % (k, v))
                if rng.random() < 0.2: fh.write('# comment\n\n')
        paths.append(p)
    return paths


_SENTINEL = object()


def observe(config):
    """config[section][key] of every option, then (after `#`) section.get(key, default) of every option (`=` same value,
    `D` the default came back) and `U1` when get() of an unknown key gives the default in every section"""
    out, gets, unknown = [], [], True
    for sec, section in config.items():
        for key in section.data:
            try:
                v = enc_val(section[key])
            except BaseException as e:
                if isinstance(e, KeyboardInterrupt) or type(e).__name__ == 'CaseTimeout': raise
                v = 'e:' + canon_exc(e)
            out.append(v)
            try:
                g = section.get(key, _SENTINEL)
                g = 'D' if g is _SENTINEL else enc_val(g)
            except BaseException as e:
                if isinstance(e, KeyboardInterrupt) or type(e).__name__ == 'CaseTimeout': raise
                g = 'e:' + canon_exc(e)
            gets.append('=' if g == v else g)
        try:
            if section.get('no-such-option-xyz', _SENTINEL) is not _SENTINEL or section.get('no-such-option-xyz') is not None:
                unknown = False
        except BaseException as e:
            if isinstance(e, KeyboardInterrupt) or type(e).__name__ == 'CaseTimeout': raise
            unknown = False
    return 'ok:' + '|'.join(out) + '#' + '|'.join(gets) + ('|U1' if unknown else '|U0')


def run_main(tab, files, argv, seed=0):
    """defaults -> files -> command line through the real client.main; returns the captured ConfigManager"""
    from plasTeX import client
    got = {}
    saved = (client.run, client.defaultConfig, getattr(client, 'collect_renderer_config', None))
    d = tempfile.mkdtemp(prefix='c16-')
    try:
        client.run = lambda filename, config: got.update(config=config, filename=filename)
        if tab is not None:
            client.defaultConfig = lambda *a, **k: build_config(tab)
            client.collect_renderer_config = lambda config: None
        args = []
        for n, p in enumerate(write_files(files, d, seed)):
            args += ['-c' if (seed >> n) & 1 else '--config', p]
        args.append('doc.tex')
        for flag, a in argv:
            args += [flag] + list(a)
        buf = io.StringIO()
        with contextlib.redirect_stdout(buf), contextlib.redirect_stderr(buf):
            client.main(args)
        return got['config']
    finally:
        client.run, client.defaultConfig = saved[0], saved[1]
        if saved[2] is not None:
            client.collect_renderer_config = saved[2]
        shutil.rmtree(d, ignore_errors=True)


def run_history(tab, steps, seed=0):
    """the same mutable ConfigManager through a history; returns the observations (and the first exception, if any)"""
    from argparse import ArgumentParser
    out = []
    d = tempfile.mkdtemp(prefix='c16-')
    try:
        buf = io.StringIO()
        with contextlib.redirect_stdout(buf), contextlib.redirect_stderr(buf):
            try:
                config = build_config(tab) if tab is not None else live_config()
                parser = ArgumentParser('plasTeX')
                config.registerArgparse(parser)
                for n, st in enumerate(steps):
                    if st[0] == 'read':
                        p = write_files([st[1]], d, seed + n)[0]
                        q = os.path.join(d, 'h%d.ini' % n)
                        os.rename(p, q)
                        config.read(q if (seed >> n) & 1 else [q])
                    elif st[0] == 'cli':
                        args = []
                        for flag, a in st[1]:
                            args += [flag] + list(a)
                        config.updateFromDict(vars(parser.parse_args(args)))
                    elif st[0] == 'set':
                        import copy
                        config[st[1]][st[2]] = copy.deepcopy(st[3])
                    else:
                        out.append(observe(config))
            except BaseException as e:
                if isinstance(e, KeyboardInterrupt) or type(e).__name__ == 'CaseTimeout':
                    raise
                out.append('err:' + canon_exc(e))
    finally:
        shutil.rmtree(d, ignore_errors=True)
    return ';;'.join(out)


def run_words(tab, fm, words):
    """the real client.main on raw words, in a directory that holds exactly the files of `fm`"""
    from plasTeX import client
    got = {}
    saved = (client.run, client.defaultConfig, getattr(client, 'collect_renderer_config', None))
    d = tempfile.mkdtemp(prefix='c16-')
    cwd = os.getcwd()
    try:
        client.run = lambda filename, config: got.update(config=config, filename=filename)
        if tab is not None:
            client.defaultConfig = lambda *a, **k: build_config(tab)
            client.collect_renderer_config = lambda config: None
        tmp = os.path.join(d, 'tmp'); os.mkdir(tmp)
        work = os.path.join(d, 'work'); os.mkdir(work)
        for n, (name, f) in enumerate(fm):
            p = write_files([f], tmp, zlib.crc32(name.encode()) + n)[0]
            os.rename(p, os.path.join(work, name))
        os.chdir(work)
        buf = io.StringIO()
        with contextlib.redirect_stdout(buf), contextlib.redirect_stderr(buf):
            client.main(list(words))
        return got['config']
    finally:
        os.chdir(cwd)
        client.run, client.defaultConfig = saved[0], saved[1]
        if saved[2] is not None:
            client.collect_renderer_config = saved[2]
        shutil.rmtree(d, ignore_errors=True)


def impl(case, aux):
    if case.stream == 'main':
        tab, fm, words = parse_main(case.line)
        try:
            config = run_words(tab, fm, words)
        except BaseException as e:
            if isinstance(e, KeyboardInterrupt) or type(e).__name__ == 'CaseTimeout':
                raise
            return 'err:' + canon_exc(e)
        try:
            return observe(config)
        except BaseException as e:
            if isinstance(e, KeyboardInterrupt) or type(e).__name__ == 'CaseTimeout':
                raise
            return 'raised-' + type(e).__name__
    if case.stream == 'hist':
        tab, steps = parse_hist(case.line)
        return run_history(tab, steps, zlib.crc32(case.line.encode()))
    tab, files, argv = parse_line(case.line)
    if 'defaults_obs' not in _env:
        try:
            _env['defaults_obs'] = observe(live_config())
        except Exception:
            _env['defaults_obs'] = None
    try:
        config = run_main(tab, files, argv, zlib.crc32(case.line.encode()))
    except BaseException as e:
        if isinstance(e, KeyboardInterrupt) or type(e).__name__ == 'CaseTimeout':
            raise
        return 'err:' + canon_exc(e)
    try:
        return observe(config)
    except BaseException as e:      # the implementation raised while being observed: an observation like any other
        if isinstance(e, KeyboardInterrupt) or type(e).__name__ == 'CaseTimeout':
            raise
        return 'raised-' + type(e).__name__


def judge(o):
    o.corr_ok = (o.impl == o.model)
    o.prop_ok = (o.spec == '-' or o.impl == o.spec)
    if not o.prop_ok:
        if o.case.stream == 'hist':
            a, b = o.impl.split(';;'), o.spec.split(';;')
            k = next((i for i, (x, y) in enumerate(zip(a, b)) if x != y), None)
            if k is None:
                o.note = 'number of observations: %d, expected %d' % (len(a), len(b))
            else:
                o.note = 'read-back no. %d of the history: ' % (k + 1) + first_diff(a[k], b[k], o.case.line)
        else:
            o.note = first_diff(o.impl, o.spec, o.case.line)


def first_diff(impl_s, spec_s, line):
    try:
        if ' w/' in ' ' + line or ' cf/' in ' ' + line: tab = parse_main(line)[0]
        elif ' obs' in ' ' + line: tab = parse_hist(line)[0]
        else: tab = parse_line(line)[0]
        rows = tab or table()
        if not impl_s.startswith('ok:'):
            return 'implementation raised %s; expected values for every option' % impl_s
        (ai, ag), (bi, bg) = [x.split('|') for x in impl_s[3:].split('#')], [x.split('|') for x in spec_s[3:].split('#')]
        if len(ai) != len(bi):
            return 'the implementation has %d options, the table %d' % (len(ai), len(bi))
        for r, x, y in zip(rows, ai, bi):
            if x != y:
                return 'option [%s] %s (%s): config[section][key] observed %s, expected %s' % (r[0], r[1], r[2], show(x), show(y))
        for r, x, y, v in zip(rows, ag, bg, bi):
            if x != y:
                return 'option [%s] %s (%s): section.get(key) observed %s, expected %s (the value of section[key])' % (
                    r[0], r[1], r[2], 'the default' if x == 'D' else show(x), show(v))
        if ag[-1:] != bg[-1:]:
            return 'section.get() of an unknown key does not return the default'
        return 'options differ in number: %d vs %d' % (len(ai), len(bi))
    except Exception as e:
        return 'diff failed: %r' % e
    return ''


def show(w):
    try:
        return repr(dec_val(w))
    except Exception:
        return w


# ---------------------------------------------------------------- shrink / search

def _cleanup(words):
    """drop structure words that introduce nothing (a section without lines, a file without sections, a command line
    without occurrences)"""
    changed = True
    while changed:
        changed = False
        out = []
        for i, w in enumerate(words):
            nxt = words[i + 1] if i + 1 < len(words) else ''
            if w.startswith('sec/') and not nxt.startswith('kv/'): changed = True; continue
            if w == 'file' and not nxt.startswith('sec/'): changed = True; continue
            if w == 'cli' and not nxt.startswith('occ/'): changed = True; continue
            out.append(w)
        words = out
    return words


def parse_intent(line):
    ps = []
    for w in line.split():
        p = w.split('/')
        if p[0] == 'pc': ps.append(('cfg', '--config' if p[1] == '1' else '-c', dec_s(p[2])))
        elif p[0] == 'pp': ps.append(('pos', dec_s(p[1])))
        elif p[0] == 'po': ps.append(('occ', dec_s(p[1]), [dec_s(x) for x in p[2:]]))
    return ps if ' intent' in ' ' + line else None


def shrink_main(ctx, o, evaluate):
    """drop whole pieces of the command line (the words are re-rendered from the pieces) and file lines"""
    best = o
    for _ in range(200):
        tab, fm, words = parse_main(best.case.line)
        ps = parse_intent(best.case.line)
        if ps is None:
            return best
        cands = []
        for k, pc in enumerate(ps):
            if pc[0] != 'pos':
                cands.append((fm, ps[:k] + ps[k + 1:]))
        for a, (name, f) in enumerate(fm):
            for b, (sec, items) in enumerate(f):
                for c in range(len(items)):
                    f2 = f[:b] + [(sec, items[:c] + items[c + 1:])] + f[b + 1:]
                    cands.append((fm[:a] + [(name, [x for x in f2 if x[1]])] + fm[a + 1:], ps))
        found = None
        for fm2, ps2 in cands:
            ws = []
            for pc in ps2:
                ws += [pc[1], pc[2]] if pc[0] == 'cfg' else ([pc[1]] if pc[0] == 'pos' else [pc[1]] + list(pc[2]))
            r = evaluate([Case('main', main_line(tab, fm2, ws, ps2), None, 'shrink')])[0]
            if not r.prop_ok:
                found = r
                break
        if found is None:
            return best
        best = found
    return best


def shrink(ctx, o, evaluate):
    """delta debugging over the removable directives (file lines, occurrences, assignments, read-backs but the last):
    halves first, then smaller chunks, while the property still fails"""
    if o.case.stream == 'main':
        return shrink_main(ctx, o, evaluate)
    best = o
    stream = o.case.stream

    def removable(words):
        return [i for i, w in enumerate(words) if w.startswith(('kv/', 'occ/', 'set/')) or (w == 'obs' and words.count('obs') > 1)]

    words = best.case.line.split()
    chunk = max(1, len(removable(words)) // 2)
    budget = 400
    while chunk >= 1 and budget > 0:
        units = removable(words)
        progressed = False
        for start in range(0, len(units), chunk):
            drop = set(units[start:start + chunk])
            cand = _cleanup([w for i, w in enumerate(words) if i not in drop])
            if cand == words or (stream == 'hist' and 'obs' not in cand):
                continue
            budget -= 1
            r = evaluate([Case(stream, ' '.join(cand), None, 'shrink')])[0]
            if not r.prop_ok:
                best, words, progressed = r, cand, True
                break
            if budget <= 0:
                break
        if not progressed:
            chunk //= 2
        else:
            chunk = max(1, min(chunk, len(removable(words)) // 2 or 1))
    return best


def search(ctx, evaluate, corr_bad):
    """proof/tie broken but no spec mismatch in the main batch: shrinks of the disagreeing cases, the sweep with fresh values,
    and a larger seeded batch, all against the Spec oracle"""
    import random
    rng = random.Random(ctx.seed * 31 + 7919)
    tab = table()
    cases = [Case(o.case.stream, o.case.line, None, 'search') for o in corr_bad[:50]]
    for _ in range(3):
        cases += [Case('one', line_of(None, f, a), None, 'search') for f, a in sweep_cases(rng, tab)]
    for _ in range(1500):
        f, a = gen_layering(rng, tab, False)
        cases.append(Case('cfg', line_of(None, f, a), None, 'search'))
    for _ in range(4000):
        t = gen_table(rng)
        f, a = gen_layering(rng, t, True)
        cases.append(Case('tab', line_of(t, f, a), None, 'search'))
    for _ in range(3000):
        t = gen_table(rng) if rng.random() < 0.7 else None
        cases.append(Case('hist', hist_line(t, gen_history(rng, t or tab)), None, 'search'))
    for _ in range(2000):
        t = gen_table(rng) if rng.random() < 0.6 else None
        fm, words, intent = gen_main(rng, t or tab)
        cases.append(Case('main', main_line(t, fm, words, intent), None, 'search'))
    bad = [o for o in evaluate(cases) if not o.prop_ok]
    if bad:
        o = shrink(ctx, bad[0], evaluate)
        return Violation('implementation differs from the property oracle (found by search)',
                         {'kind': 'failing-input', 'outcome': o.to_json()})
    return None
