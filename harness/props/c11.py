"""C11 - Verbatim text and mathematics pass through character-for-character.

streams (component level: the real classes are called in-process; document level: whole documents are parsed)
  venv    : `VerbatimEnvironment.invoke` on  body + end marker + rest   (begun by \\begin{name} or as command \\name)
  vdoc    : the same bodies in a whole document: `verbatim_node.textContent`, and the text after it processed normally
  venvraw : arbitrary input after \\begin{verbatim} (no end marker, truncated markers ...): implementation vs model
  verb    : `verb.invoke` + `verb.digest` on  [*] delimiter body delimiter rest, every printable delimiter
  verbdoc : the same in a whole document
  verbraw : arbitrary input after \\verb: implementation vs model
  vdocp / verbdocp : the same inside a complete document that goes through the ordinary paragraph pipeline
            (\\documentclass, paragraph breaks: `paragraphs()` normalises with the document's character substitutions), where
            the surrounding text must get its ligatures and the verbatim text must not
  venva / vdoca / vdocpa : verbatim used under a \\let alias (\\let\\code\\verbatim \\let\\endcode\\endverbatim, \\begin{code}):
            through the real `begin.invoke` (component) and in whole documents; bodies may mention \\end{verbatim}
  nsub    : `node.normalize(document.charsubs)` called on a node of each verbatim / math class (and on ordinary classes as a
            control) holding ligature sources, directly or one element deeper: text afterwards vs the C07 normalisation model
            with the class's `nosub` flag from the regenerated table Generated/NoCharsub.lean
  mgrp    : the text of a brace group inside $ $ after digestion (digest-time normalisation): repaired / as-is variant (D17)
  msrc    : formulas of the math grammar (depth <= 4) in $ $, \\( \\), \\[ \\], $$ $$, equation and inside text
            arguments, partly written with user macros: `math_node.source` (and `mathjax_source`) vs the model string,
            and `source` re-tokenised by the real tokenizer vs the formula's tokens (Spec)
"""
import logging, random
from framework import Case, Violation

ID = 'C11'
LEAN_MODULE = 'PlasVerif.Properties.C11'
LEVEL_TEXT = ('Lean 4 theorems over line-by-line models of VerbatimEnvironment.invoke, verb.invoke/digest, Macro.source / bgroup / math / '
              'displaymath / Array source reconstruction and mathjax_lt_gt: verbatim_scan_exact and verb_scan_exact (every body whose end '
              'marker occurs first at the end, every delimiter: exactly the body is returned and reading resumes right after the marker; '
              'composed with C01.verbatim_identity: one token per character), after_verbatim_normal (C04 context model: verbatim table while '
              'scanning, the table before the environment after the pop), no_charsub_in_verbatim_or_math / verbatim_text_exact (C07 '
              'normalisation model: no substitution below verbatim or math nodes), math_source_roundtrip (for every formula of the grammar, any '
              'depth: the reconstructed source re-tokenised by the C01 tokenizer model is, blanks aside, the formula\'s token sequence), '
              'render_lexes (the written formula lexes to the same tokens), mathjax_lt_gt_only_changes_angle; known finding D17 in both variants '
              '(math_group_digest_asIs_counterexample / math_group_digest_repaired). What the parser builds for a formula (argument structure '
              'per macro), expansion of user macros and the rendered \\( \\) payload are carried by the correspondence streams only.')
LEVEL_NOTE = ('Trusted: Lean kernel (axioms propext, Classical.choice, Quot.sound only), the correspondence harness and its generators '
              '(formula depth <= 4, bodies <= 60 characters), CPython. Modelled not verified: the parser (Model/MathParse.lean is tied by '
              'the msrc stream), user-macro expansion, the image generator\'s use of source, alltt/listings.')
TECHNIQUE = 'Lean 4 proof (induction on the token scan / structural induction on formulas with a compositional lexing lemma) + differential correspondence'
TRUSTED = ['Model/MathParse.lean (argument structure of \\frac, \\sqrt, scripts, boxes, array) is tied to the real parser by the msrc stream only',
           'the tokenizer model is the one proved about in C01']
ASSUMPTIONS = ['formulas are non-empty (an empty math node reconstructs as a lone `$` / `\\[` / `\\begin{equation}`)',
               '\\left< and \\right> are excluded: plasTeX deliberately rewrites them to \\langle / \\rangle',
               'the delimiters of a formula are normalised by design: \\( \\) -> $ $, $$ $$ -> \\[ \\]',
               'there is no blank between \\verb and its delimiter (LaTeX forbids it); `\\verb{` is closed by `}` (plasTeX extension)',
               '`\\verb^^X`: with delimiter ^ the body is non-empty at document level (the ^^ notation is decoded while the control word is scanned, as in TeX)',
               'formula depth sampled up to 4, verbatim bodies up to 60 characters (the theorems cover every size)']
RULE = ('bodies: random strings over printable ASCII + newline + a few non-ASCII letters, seeded with ^^-sequences, comment/ligature-like '
        'sequences, runs of blanks and partial end markers; delimiters: every printable non-letter; formulas: recursive generation from the '
        'Spec grammar, depth <= 4, embedded in 9 contexts, partly spelled with \\newcommand macros. non-trivial = spec defined and '
        '(body contains a special character | formula has >= 3 items); distinct = distinct driver request line')
EXHAUSTIVE = {}
CASE_TIMEOUT = 20

logging.disable(logging.CRITICAL)

NOSUB_CLASSES = ['verb', 'verbatim', 'verbatim*', 'math', 'displaymath', 'equation', 'eqnarray', 'eqnarray*']   # must suppress
CONTROL_CLASSES = ['textbf', 'emph', 'bgroup', 'mbox', 'par']                                                   # ordinary classes
PROBE_TEXT = "a--b''c`d'e---f``g"


def normalize_probe(cls, text, nested=False):
    """text below a fresh node of class `cls` after `node.normalize(document.charsubs)`"""
    from plasTeX import TeXDocument
    from plasTeX.Tokenizer import Other, Letter
    doc = TeXDocument()
    node = doc.createElement(cls)
    holder = node
    if nested:
        holder = doc.createElement('bgroup')
        node.appendChild(holder)
    for ch in text:
        holder.appendChild(Letter(ch) if ch.isalpha() and ch.isascii() else Other(ch))
    node.normalize(doc.charsubs)
    return node.textContent


def gen_nosub():
    import extract
    rows = []
    for cls in NOSUB_CLASSES + CONTROL_CLASSES:
        out = normalize_probe(cls, PROBE_TEXT)
        from plasTeX import TeXDocument
        if out == PROBE_TEXT:
            flag = 'true'
        else:
            flag = 'false'
        if not all(c.isalnum() or c == '*' for c in cls):
            raise ValueError(cls)
        rows.append('("%s", %s)' % (cls, flag))
    src = (extract.HEADER % ('plasTeX (normalize() of the verbatim / math classes, probed with %r and document.charsubs)' % PROBE_TEXT, 'probed') +
           'namespace PlasVerif.Generated.NoCharsub\n'
           '/-- class name -> `normalize(charsubs)` leaves the probe text unchanged (the class drops the substitution list) -/\n'
           'def nosubClasses : List (String × Bool) := [' + ', '.join(rows) + ']\n'
           'end PlasVerif.Generated.NoCharsub\n')
    return 'PlasVerif/Generated/NoCharsub.lean', src, 'probed'


MATH_TEMPLATE_NAMES = ['math', 'displaymath', 'equation', 'eqnarray', 'eqnarray*']


def gen_math_templates():
    """which attribute of the node each HTML5 template of a mathematics class writes into the page (exact: read from
    plasTeX/Renderers/HTML5/Math.jinja2s)"""
    import extract, os, re
    from framework import REPO
    path = os.path.join(REPO, 'plasTeX', 'Renderers', 'HTML5', 'Math.jinja2s')
    blocks = re.split(r'(?m)^name:', open(path, encoding='utf-8').read())
    table = {}
    for b in blocks[1:]:
        head, _, body = b.partition('\n')
        attrs = re.findall(r'\{\{\s*obj\.([A-Za-z_]+)\s*\}\}', body)
        payload = [a for a in attrs if a not in ('id', 'ref')]
        for name in head.split():
            table[name] = payload
    rows = []
    for n in MATH_TEMPLATE_NAMES:
        pl = table.get(n)
        if pl is None or len(pl) != 1 or not re.fullmatch(r'[A-Za-z_]+', pl[0]):
            raise ValueError('template of %s writes %r' % (n, pl))
        rows.append('("%s", "%s")' % (n, pl[0]))
    src = (extract.HEADER % ('plasTeX/Renderers/HTML5/Math.jinja2s', 'exact') +
           'namespace PlasVerif.Generated.MathTemplates\n'
           '/-- class name -> the node attribute its HTML5 template writes into the page -/\n'
           'def payloadAttr : List (String × String) := [' + ', '.join(rows) + ']\n'
           'end PlasVerif.Generated.MathTemplates\n')
    return 'PlasVerif/Generated/MathTemplates.lean', src, 'exact'


GENERATED = [gen_nosub, gen_math_templates]

# ---------------------------------------------------------------- helpers

def cps(s):
    return ','.join(str(ord(c)) for c in s) if s else '-'


def cps0(s):
    return ','.join(str(ord(c)) for c in s)


def uncps(w):
    return '' if w in ('-', '') else ''.join(chr(int(x)) for x in w.split(','))


LETTERS = 'abcdefghijklmnopqrstuvwxyzABCDEFGHIJKLMNOPQRSTUVWXYZ'
PRINTABLE = ''.join(chr(i) for i in range(32, 127))
SPECIALS = '\\{}%$&#^_~ \n\t'
PARTIAL_MARKERS = ['\\end', '\\end{', '\\end{verb', '\\end{verbatim', '\\endverbatim', 'end{verbatim}', '\\end {verbatim}',
                   '\\end{verbatim*', '\\begin{verbatim}', '\\\\end{verbatim', '\\en', '\\']
LIG_SOURCES = ['--', '---', '``', "''", "'", '`', '!`', '?`', '"`', '"\'', 'a--b', "it's", '<<', '>>', ',,']
SNIPPETS = LIG_SOURCES + ['^^M', '^^41', '^^', '^^?', '%% not a comment', '% x\n', '---', '--', "''", '``', '!`', '?`', '<<', '>>', '  ', '    ', '\n\n',
            '\n \n', '\\par', '\\verb|x|', '{', '}', '{}', '\\\\', '$x^2$', '&', '#1', '~', '\t', '\\item', '\\section{x}', 'é', 'λ', 'ß']


def gen_body(rng, maxlen=60):
    parts = []
    n = rng.randint(0, 8)
    for _ in range(n):
        r = rng.random()
        if r < 0.35:
            parts.append(''.join(rng.choice(PRINTABLE) for _ in range(rng.randint(1, 8))))
        elif r < 0.5:
            parts.append(''.join(rng.choice(SPECIALS) for _ in range(rng.randint(1, 4))))
        elif r < 0.7:
            parts.append(rng.choice(PARTIAL_MARKERS))
        elif r < 0.9:
            parts.append(rng.choice(SNIPPETS))
        else:
            parts.append(''.join(rng.choice(LETTERS + ' \n') for _ in range(rng.randint(1, 10))))
    s = ''.join(parts)
    return s[:maxlen]


DOC_RESTS = {  # rest written after the verbatim -> (textContent expected after it, element that must exist)
    ' after': (' after', None),
    'Z\\emph{Q}': ('ZQ', 'emph'),
    '\nnext $x$ y': (' next x y', 'math'),
    '': ('', None),
    '{\\bf B}c': ('Bc', 'bf'),
}

# ---------------------------------------------------------------- formula grammar

SYMS = ['alpha', 'beta', 'gamma', 'to', 'in', 'sum', 'int', 'infty', 'cdot', 'leq', 'quad', 'lim', 'ldots', 'times', 'sin', 'log',
        'mathbb', 'foo']          # \mathbb and \foo are not defined with arguments: argument-less control words
CSYMS = [',', ';', '!', '{', '}', '|', ':', '#', '$', '%', '&', '_']
CMD1 = ['sqrt', 'mathrm', 'mathbf', 'overline', 'hat', 'underline', 'vec', 'mathcal', 'bar', 'tilde']
BOXES = ['mbox', 'text', 'textbf', 'textrm', 'hbox']
MATH_CH = LETTERS + '0123456789' + '+-*/=().,:;!<>|\'"?@`'
TEXT_CH = LETTERS + '0123456789' + '.,;:!?()-\'`"/*+=@'
LDELIM = [('C', '('), ('C', '['), ('C', '|'), ('C', '.'), ('X', '{'), ('X', '|'), ('Y', 'langle'), ('Y', 'lfloor'), ('C', '/')]
RDELIM = [('C', ')'), ('C', ']'), ('C', '|'), ('C', '.'), ('X', '}'), ('X', '|'), ('Y', 'rangle'), ('Y', 'rfloor'), ('C', '/')]


def gen_single(rng):
    r = rng.random()
    if r < 0.6:
        return [('C', rng.choice(LETTERS + '0123456789'))]
    return [('Y', rng.choice(SYMS[:14]))]


def gen_arg(rng, depth, inopt=False):
    """(braced, seq)"""
    if rng.random() < 0.3:
        return False, gen_single(rng)
    return True, gen_seq(rng, depth - 1, rng.randint(0 if rng.random() < 0.1 else 1, 3), inopt)


def gen_text(rng, depth, inopt=False):
    seq = []
    for _ in range(rng.randint(0 if rng.random() < 0.1 else 1, 4)):
        r = rng.random()
        if r < 0.6:
            seq.extend(('C', rng.choice(TEXT_CH)) for _ in range(rng.randint(1, 4)))
        elif r < 0.8:
            if seq and seq[-1][0] == 'C':
                seq.append(('S',))
                seq.append(('C', rng.choice(LETTERS)))
        elif depth > 0:
            seq.append(('M', gen_seq(rng, depth - 1, rng.randint(1, 3), inopt)))   # no [ ] hidden in braces inside an optional argument (NF-prog 3)
    return seq


LIG_CH = '\'`-"'      # characters of TeX's text ligatures (known finding D17: substituted inside groups/cells in math)
_nolig = [0]


def gen_item(rng, depth, inopt=False, inarr=False):
    r = rng.random()
    if depth <= 0 or r < 0.3:
        chars = MATH_CH if not inopt else MATH_CH.replace('[', '').replace(']', '')
        if _nolig[0]:
            chars = ''.join(c for c in chars if c not in LIG_CH)
        return [('C', rng.choice(chars))]
    if r < 0.38:
        return [('Y', rng.choice(SYMS))]
    if r < 0.43:
        return [('X', rng.choice(CSYMS))]
    if r < 0.5:
        _nolig[0] += 1
        try:
            return [('G', gen_seq(rng, depth - 1, rng.randint(0, 3), inopt))]
        finally:
            _nolig[0] -= 1
    if r < 0.62:
        b, a = gen_arg(rng, depth, inopt)
        base = [('C', rng.choice(LETTERS))] if rng.random() < 0.7 else []
        return base + [(rng.choice('UD'), b, a)]
    if r < 0.7:
        b, a = gen_arg(rng, depth, inopt)
        return [('1', rng.choice(CMD1), b, a)]
    if r < 0.78:
        b1, a1 = gen_arg(rng, depth, inopt)
        b2, a2 = gen_arg(rng, depth, inopt)
        return [('2', 'frac', b1, a1, b2, a2)]
    if r < 0.83:
        b, a = gen_arg(rng, depth, inopt)
        return [('R', gen_seq(rng, depth - 1, rng.randint(0, 2), True), b, a)]
    if r < 0.89:
        l, rr = rng.choice(LDELIM), rng.choice(RDELIM)
        if inopt:
            l, rr = ('C', '('), ('C', ')')
        return [('1', 'left', False, [l])] + gen_seq(rng, depth - 1, rng.randint(1, 3), inopt) + [('1', 'right', False, [rr])]
    if r < 0.915:      # \left\| .. \right\|_{..}: what \norm[..]{..} (optional argument with an empty default) stands for
        sub = gen_seq(rng, depth - 1, rng.randint(1, 2), True) if rng.random() < 0.5 else []
        return ([('1', 'left', False, [BAR])] + gen_seq(rng, depth - 1, rng.randint(1, 3), inopt) +
                [('1', 'right', False, [BAR]), ('D', True, sub)])
    if r < 0.95:
        return [('1', rng.choice(BOXES), True, gen_text(rng, depth - 1, inopt))]
    if inopt or inarr:
        return [('C', rng.choice(LETTERS))]
    ncol = rng.randint(1, 3)
    spec = ''.join(rng.choice('lcr') for _ in range(ncol))
    if rng.random() < 0.3:
        spec = spec[:1] + '|' + spec[1:]
    body = []
    nrow = rng.randint(1, 3)
    _nolig[0] += 1
    for i in range(nrow):
        for j in range(ncol):
            cell = gen_seq(rng, depth - 1, rng.randint(1, 2), False, True)
            if j == 0 and i > 0 and cell[0] in (('C', '*'), ('C', '[')):
                cell = [('C', 'x')] + cell      # `\\*` and `\\[` are arguments of the row end
            body += cell
            if j < ncol - 1:
                body.append(('&',))
        if i < nrow - 1:
            body.append(('X', '\\'))
    _nolig[0] -= 1
    return [('A', spec, body)]


def gen_seq(rng, depth, n, inopt=False, inarr=False):
    seq = []
    for _ in range(n):
        it = gen_item(rng, depth, inopt, inarr)
        # a blank the author wrote between two plain items (it survives as one Space token)
        if seq and not inarr and rng.random() < 0.12 and seq[-1][0] in ('C', 'G') and it[0][0] in ('C', 'G', 'Y', '1', '2'):
            seq.append(('S',))
        seq += it
    return seq


def enc(seq):
    out = []
    for it in seq:
        k = it[0]
        if k == 'C': out += ['C', str(ord(it[1]))]
        elif k == 'S': out += ['S']
        elif k == 'Y': out += ['Y', cps(it[1])]
        elif k == 'X': out += ['X', str(ord(it[1]))]
        elif k == 'G': out += ['G'] + enc(it[1])
        elif k in 'UD': out += [k, '1' if it[1] else '0'] + enc(it[2])
        elif k == '1': out += ['1', cps(it[1]), '1' if it[2] else '0'] + enc(it[3])
        elif k == '2': out += ['2', cps(it[1]), '1' if it[2] else '0', '1' if it[4] else '0'] + enc(it[3]) + enc(it[5])
        elif k == 'R': out += ['R', '1' if it[2] else '0'] + enc(it[1]) + enc(it[3])
        elif k == 'M': out += ['M'] + enc(it[1])
        elif k == 'A': out += ['A', cps(it[1])] + enc(it[2])
        elif k == '&': out += ['&']
        else: raise ValueError(k)
    return out + ['N']


def dec(words, i=0):
    """inverse of enc: returns (seq, next index)"""
    seq = []
    while True:
        w = words[i]
        if w == 'N':
            return seq, i + 1
        if w == 'C': seq.append(('C', chr(int(words[i + 1])))); i += 2
        elif w == 'S': seq.append(('S',)); i += 1
        elif w == 'Y': seq.append(('Y', uncps(words[i + 1]))); i += 2
        elif w == 'X': seq.append(('X', chr(int(words[i + 1])))); i += 2
        elif w == 'G':
            b, i = dec(words, i + 1); seq.append(('G', b))
        elif w in 'UD':
            a, j = dec(words, i + 2); seq.append((w, words[i + 1] == '1', a)); i = j
        elif w == '1':
            a, j = dec(words, i + 3); seq.append(('1', uncps(words[i + 1]), words[i + 2] == '1', a)); i = j
        elif w == '2':
            a1, j = dec(words, i + 4); a2, j = dec(words, j)
            seq.append(('2', uncps(words[i + 1]), words[i + 2] == '1', a1, words[i + 3] == '1', a2)); i = j
        elif w == 'R':
            o, j = dec(words, i + 2); a, j = dec(words, j); seq.append(('R', o, words[i + 1] == '1', a)); i = j
        elif w == 'M':
            b, i = dec(words, i + 1); seq.append(('M', b))
        elif w == 'A':
            b, j = dec(words, i + 2); seq.append(('A', uncps(words[i + 1]), b)); i = j
        elif w == '&': seq.append(('&',)); i += 1
        else: raise ValueError(w)


USER_MACROS = {  # name -> definition (the expansion of each is known by construction, see Writer)
    'al': '\\newcommand{\\al}{\\alpha}',
    'R': '\\newcommand{\\R}{\\mathbb{R}}',
    'fr': '\\newcommand{\\fr}[2]{\\frac{#1}{#2}}',
    'sq': '\\newcommand{\\sq}[1]{\\sqrt{#1}}',
    'half': '\\def\\half{\\frac{1}{2}}',
    # empty expansions
    'nothing': '\\newcommand{\\nothing}{}',
    'todo': '\\newcommand{\\todo}[1]{}',
    'drop': '\\newcommand{\\drop}[2][]{}',
    # pass-through macros of every signature kind: the call expands to its arguments
    'wrap': '\\newcommand{\\wrap}[1]{#1}',
    'dwrap': '\\def\\dwrap#1{#1}',
    'both': '\\newcommand{\\both}[2]{#1#2}',
    'opt': '\\newcommand{\\opt}[2][]{#1#2}',         # optional argument with an EMPTY default
    'optd': '\\newcommand{\\optd}[2][0]{#1#2}',      # optional argument with default 0
    'mo': '\\newcommand{\\mo}[1]{\\ifmmode #1\\fi}',  # a conditional inside a user macro
    'norm': '\\newcommand{\\norm}[2][]{\\left\\|#2\\right\\|_{#1}}',
}
PREAMBLE = ''.join(USER_MACROS.values())
JUNK = ['x', 'fix me', 'a+b', '\\alpha', '1', '']
BAR = ('X', '|')


def single_group(t):
    """the text is exactly one brace group (TeX strips those braces from an optional / delimited argument)"""
    if len(t) < 2 or t[0] != '{' or t[-1] != '}':
        return False
    depth = 0
    for i, ch in enumerate(t):
        if ch == '\\':
            continue
        if ch == '{' and (i == 0 or t[i - 1] != '\\'):
            depth += 1
        elif ch == '}' and t[i - 1] != '\\':
            depth -= 1
            if depth == 0 and i < len(t) - 1:
                return False
    return True


class Writer:
    """writes a formula down the way an author might: optional blanks after control words, and user macros -
    abbreviations (\\al, \\fr ...), pass-through macros around runs of items (\\wrap{..}, \\both{..}{..}, \\opt[..]{..} with
    an empty default, \\optd with a default, \\mo with a conditional), \\norm[..]{..}, and calls whose expansion is empty
    (\\nothing, \\todo{..}, \\drop[..]{..}, \\wrap{}) between items.  The expansion of what is written is the formula."""
    def __init__(self, rng, macros):
        self.rng, self.macros = rng, macros
        self.nobr = 0        # > 0 inside an optional argument: no [ ] may be written (not even inside braces)

    def cw(self, name, nxt):
        # a control word: a blank is needed before a letter, optional (and skipped by TeX) otherwise
        if nxt[:1] and nxt[0] in LETTERS:
            return '\\' + name + ' ' + nxt
        if self.rng is not None and self.rng.random() < 0.2 and nxt[:1] not in ('[',):
            return '\\' + name + ' ' + nxt
        return '\\' + name + nxt

    def arg(self, b, a, nxt='', mode='math'):
        if b:
            return '{' + self.seq(a, mode) + '}' + nxt
        return self.item(a, 0, nxt, mode)     # a single token: a control word needs a blank before a letter

    # -- user-macro layer -------------------------------------------------------------------------------------------
    def empty_call(self, mode, next_is_blank):
        rng = self.rng
        forms = ['todo', 'drop', 'wrap', 'both', 'opt', 'dropo']
        if not next_is_blank:
            forms.append('nothing')
        if mode == 'math':
            forms.append('mo')
        f = rng.choice(forms)
        junk = rng.choice(JUNK)
        if f == 'nothing': return lambda nxt: self.cw('nothing', nxt)
        if f == 'todo': return lambda nxt: '\\todo{' + junk + '}' + nxt
        if f == 'drop': return lambda nxt: '\\drop{' + junk + '}' + nxt
        if f == 'dropo' and not self.nobr: return lambda nxt: '\\drop[' + junk + ']{' + rng.choice(JUNK) + '}' + nxt
        if f == 'wrap': return lambda nxt: '\\wrap{}' + nxt
        if f == 'both': return lambda nxt: '\\both{}{}' + nxt
        if f == 'mo': return lambda nxt: '\\mo{}' + nxt
        return lambda nxt: '\\opt{}' + nxt

    def call(self, run, mode):
        """a pass-through macro call whose expansion is exactly the run"""
        rng = self.rng
        k = rng.randint(0, len(run))
        a, b = self.seq(run[:k], mode), self.seq(run[k:], mode)
        forms = ['wrap', 'dwrap', 'both']
        if mode == 'math':
            forms.append('mo')
        if not self.nobr and '[' not in a and ']' not in a and not single_group(a.strip()):
            forms += ['opt', 'opt', 'optd']
        f = rng.choice(forms)
        # `a` and `b` were written separately: joined directly they must still read the same (a control word at the end of
        # `a` followed by a letter at the start of `b` would not)
        joined = self.seq(run, mode) if f in ('wrap', 'dwrap', 'mo') else None
        if f == 'wrap': return lambda nxt: '\\wrap{' + joined + '}' + nxt
        if f == 'dwrap': return lambda nxt: '\\dwrap{' + joined + '}' + nxt
        if f == 'mo': return lambda nxt: '\\mo{' + joined + '}' + nxt
        if f == 'both': return lambda nxt: '\\both{' + a + '}{' + b + '}' + nxt
        if f == 'opt':
            return (lambda nxt: '\\opt[' + a + ']{' + b + '}' + nxt) if a else (lambda nxt: '\\opt{' + b + '}' + nxt)
        # optd: the default 0 stands for a leading 0
        if run[:1] == [('C', '0')] and rng.random() < 0.7:
            rest = self.seq(run[1:], mode)
            return lambda nxt: '\\optd{' + rest + '}' + nxt
        return (lambda nxt: '\\optd[' + a + ']{' + b + '}' + nxt) if a else (lambda nxt: '\\optd[]{' + b + '}' + nxt)

    def norm_at(self, seq, i):
        """seq[i:] starts with \\left\\| body \\right\\| _{sub}: returns (j, body, sub) with j the index after it"""
        if seq[i] != ('1', 'left', False, [BAR]):
            return None
        depth = 0
        for j in range(i + 1, len(seq)):
            it = seq[j]
            if it[0] == '1' and it[1] == 'left': depth += 1
            elif it[0] == '1' and it[1] == 'right':
                if depth == 0:
                    if it == ('1', 'right', False, [BAR]) and j + 1 < len(seq) and seq[j + 1][0] == 'D' and seq[j + 1][1]:
                        return j + 2, seq[i + 1:j], seq[j + 1][2]
                    return None
                depth -= 1
        return None

    def seq(self, seq, mode='math'):
        rng = self.rng
        m = self.macros and rng is not None
        pieces = []
        i, n = 0, len(seq)
        free = m and mode != 'array'       # between the cells of an array nothing is wrapped (a run may not span & or \\)
        while i < n:
            it = seq[i]
            if free and rng.random() < 0.10:
                pieces.append(self.empty_call(mode, it[0] == 'S'))
            if m and it == ('Y', 'mathbb') and i + 1 < n and seq[i + 1] == ('G', [('C', 'R')]) and rng.random() < 0.7:
                pieces.append(lambda nxt: self.cw('R', nxt))
                i += 2
                continue
            if m and mode != 'text':
                na = self.norm_at(seq, i)
                if na and rng.random() < 0.8:
                    j, body, sub = na
                    sb = self.seq(sub, 'math') if sub else ''
                    if not sub or (not self.nobr and '[' not in sb and ']' not in sb and not single_group(sb.strip())):
                        bd = self.seq(body, mode)
                        pieces.append((lambda nxt, sb=sb, bd=bd: ('\\norm[' + sb + ']{' if sb else '\\norm{') + bd + '}' + nxt))
                        i = j
                        continue
            if free and rng.random() < 0.12:
                L = rng.randint(1, 3)
                run = seq[i:i + L]
                if (all(x[0] != '&' and x != ('X', '\\') for x in run) and run[0][0] != 'S' and run[-1][0] != 'S'
                        and not any(x[0] == '1' and x[1] in ('left', 'right') for x in run)):
                    pieces.append(self.call(run, mode))
                    i += len(run)
                    continue
            pieces.append(lambda nxt, i=i: self.item(seq, i, nxt, mode))
            i += 1
        if free and rng.random() < 0.05:
            pieces.append(self.empty_call(mode, False))
        out = ''
        for pc in reversed(pieces):
            out = pc(out)
        return out

    def item(self, seq, idx, nxt, mode='math'):
        it = seq[idx]
        k = it[0]
        m = self.macros and self.rng is not None
        if k == 'C': return it[1] + nxt
        if k == 'S': return ' ' + nxt
        if k == 'Y':
            if m and it[1] == 'alpha' and self.rng.random() < 0.5:
                return self.cw('al', nxt)
            return self.cw(it[1], nxt)
        if k == 'X': return '\\' + it[1] + nxt
        if k == 'G': return '{' + self.seq(it[1], 'math' if mode == 'array' else mode) + '}' + nxt
        if k == 'U': return '^' + self.arg(it[1], it[2], nxt)
        if k == 'D': return '_' + self.arg(it[1], it[2], nxt)
        if k == '1':
            if m and it[1] == 'sqrt' and it[2] and self.rng.random() < 0.4:
                return '\\sq{' + self.seq(it[3]) + '}' + nxt
            return self.cw(it[1], self.arg(it[2], it[3], nxt, 'text' if it[1] in BOXES else 'math'))
        if k == '2':
            if m and it[1] == 'frac' and it[2] and it[4] and self.rng.random() < 0.4:
                if it[3] == [('C', '1')] and it[5] == [('C', '2')] and self.rng.random() < 0.5:
                    return self.cw('half', nxt)
                return '\\fr{' + self.seq(it[3]) + '}{' + self.seq(it[5]) + '}' + nxt
            return self.cw(it[1], self.arg(it[2], it[3], self.arg(it[4], it[5], nxt)))
        if k == 'R':
            self.nobr += 1
            try:
                o = self.seq(it[1])
            finally:
                self.nobr -= 1
            return '\\sqrt[' + o + ']' + self.arg(it[2], it[3], nxt)
        if k == 'M': return '$' + self.seq(it[1], 'math') + '$' + nxt
        if k == 'A': return '\\begin{array}{' + it[1] + '}' + self.seq(it[2], 'array') + '\\end{array}' + nxt
        if k == '&': return '&' + nxt
        raise ValueError(k)


CONTEXTS = {  # name -> (kind, template)
    'dollar': ('inline', 'T $%s$ U'),
    'paren': ('inline', 'T \\(%s\\) U'),
    'bracket': ('display', 'T \\[%s\\] U'),
    'ddollar': ('display', 'T $$%s$$ U'),
    'equation': ('equation', 'T \\begin{equation}%s\\end{equation} U'),
    'textbf': ('inline', 'T \\textbf{a $%s$ b} U'),
    'emph': ('inline', 'T \\emph{\\(%s\\)} U'),
    'footnote': ('inline', 'T\\footnote{see $%s$.} U'),
    'section': ('inline', '\\section{On $%s$} U'),
}
# every context also inside a complete document whose paragraphs are normalised with the character substitutions
for _k, (_kind, _t) in list(CONTEXTS.items()):
    CONTEXTS[_k + '+par'] = (_kind, "\\documentclass{article}\\begin{document}\nO--o ``q''.\n\n" + _t + "\n\nE--e.\n\\end{document}\n")
TAG = {'inline': 'math', 'display': 'displaymath', 'equation': 'equation'}


def count_items(seq):
    n = 0
    for it in seq:
        n += 1
        for x in it[1:]:
            if isinstance(x, list):
                n += count_items(x)
    return n


# ---------------------------------------------------------------- generation

def verb_delims():
    return [c for c in PRINTABLE if c not in LETTERS and c not in ' *']


def generate(ctx):
    rng = ctx.rng
    q = ctx.tier == 'quick'
    n_env = 700 if q else 12000
    for i in range(n_env):
        body = gen_body(rng)
        begun = 0 if rng.random() < 0.2 else 1
        name = 'verbatim*' if rng.random() < 0.2 else 'verbatim'
        rest = rng.choice(['', ' x', '\nafter \\emph{y}', '\\end{verbatim}', '%', gen_body(rng, 12)])
        yield Case('venv', '%d %s %s %s' % (begun, cps(name), cps(body), cps(rest)), {'kind': 'venv'})
    for i in range(n_env // 3):
        body = gen_body(rng, 40)
        name = 'verbatim*' if rng.random() < 0.2 else 'verbatim'
        rest = rng.choice(list(DOC_RESTS))
        yield Case('vdoc', '1 %s %s %s' % (cps(name), cps(body), cps(rest)), {'kind': 'vdoc'})
    for i in range(n_env // 4):     # the same in a complete document with paragraph breaks (character substitutions active around it)
        body = gen_body(rng, 40)
        if rng.random() < 0.5:
            body += rng.choice(LIG_SOURCES) + gen_body(rng, 6)
        name = 'verbatim*' if rng.random() < 0.2 else 'verbatim'
        rest = rng.choice(list(DOC_RESTS))
        yield Case('vdocp', '1 %s %s %s' % (cps(name), cps(body), cps(rest)), {'kind': 'vdocp'})
    for i in range(n_env // 4):     # verbatim under a \\let alias: the end marker carries the name written in \\begin{...}
        written = rng.choice(list(ALIASES))
        cls = ALIASES[written]
        body = gen_body(rng, 30)
        r = rng.random()
        if r < 0.4:      # the class's own end marker is ordinary content here
            k = rng.randint(0, len(body))
            body = body[:k] + '\\end{%s}' % cls + body[k:]
        elif r < 0.55:
            body += '\\end{' + written[:rng.randint(0, len(written))]
        st = rng.choice(['venva', 'vdoca', 'vdocpa'])
        rest = rng.choice(list(DOC_RESTS)) if st != 'venva' else rng.choice(['', ' x', '\nafter \\emph{y}', '\\end{%s}' % cls])
        yield Case(st, '%s %s %s %s' % (cps(written), cps(cls), cps(body), cps(rest)), {'kind': st})
    for i in range(n_env // 6):     # malformed: no (complete) end marker
        inp = gen_body(rng, 40) + rng.choice(['', '\\end{verbatim', '\\end{verbati}', '\\endverbati', '\\end{verbatim*}x'])
        yield Case('venvraw', '1 %s %s' % (cps('verbatim'), cps(inp)), {'kind': 'venvraw'})
    delims = verb_delims()
    reps = 3 if q else 40
    for d in delims + ['é']:
        for _ in range(reps):
            star = 1 if rng.random() < 0.25 else 0
            body = gen_body(rng, 25).replace('\n', ' ')
            close = '}' if d == '{' else d
            if rng.random() < 0.9:
                body = body.replace(close, '')
            rest = rng.choice(['', 'B', ' after', d + 'x', '\\emph{y}'])
            yield Case('verb', '%d %d %s %s' % (star, ord(d), cps(body), cps(rest)), {'kind': 'verb'})
        for _ in range(max(1, reps // 3)):
            star = 1 if rng.random() < 0.25 else 0
            body = gen_body(rng, 20).replace('\n', ' ').replace('}' if d == '{' else d, '')
            if d == '^' and not body:
                body = 'x'      # `\\verb^^B`: the ^^ notation is decoded while the name `verb` is being scanned (as in TeX)
            rest = rng.choice(['B', ' after', 'Z\\emph{Q}'])
            yield Case('verbdoc', '%d %d %s %s' % (star, ord(d), cps(body), cps(rest)), {'kind': 'verbdoc'})
    plain_delims = [d for d in delims if d not in LIG_CH + '!?<>,']
    for i in range(150 if q else 3000):   # \\verb / \\verb* with ligature sources, in a document with paragraph breaks
        d = rng.choice(plain_delims)
        star = 1 if rng.random() < 0.3 else 0
        close = '}' if d == '{' else d
        body = (gen_body(rng, 10) + rng.choice(LIG_SOURCES) + gen_body(rng, 8) +
                (rng.choice(LIG_SOURCES) if rng.random() < 0.4 else '')).replace('\n', ' ').replace(close, '')
        rest = rng.choice(['B', ' after', 'Z\\emph{Q}'])
        yield Case('verbdocp', '%d %d %s %s' % (star, ord(d), cps(body), cps(rest)), {'kind': 'verbdocp'})
    for cls in NOSUB_CLASSES + CONTROL_CLASSES:
        for i in range(6 if q else 80):
            txt = ''.join(rng.choice(LIG_SOURCES + list('abc xyz.,')) for _ in range(rng.randint(1, 5)))
            yield Case('nsub', '%s %d %s' % (cls, 1 if rng.random() < 0.3 else 0, cps(txt)), {'kind': 'nsub'})
    # starred with any delimiter including letters and `*`
    for d in 'a*Z ':
        yield Case('verb', '1 %d %s %s' % (ord(d), cps('x y'), cps('B')), {'kind': 'verb'})
    for i in range(60 if q else 1500):   # malformed \verb
        inp = gen_body(rng, 12).replace('\n', ' ')
        yield Case('verbraw', cps(inp), {'kind': 'verbraw'})
    plain = ''.join(c for c in MATH_CH if c not in LIG_CH and c not in '[]')
    for i in range(60 if q else 1500):
        # without ligature characters both variants of the known finding D17 coincide; the witness carries the rest
        yield Case('mgrp', cps(''.join(rng.choice(plain) for _ in range(rng.randint(1, 8)))), {'kind': 'mgrp'})
    n_m = 1500 if q else 30000
    ctxs = list(CONTEXTS)
    for i in range(n_m):
        depth = rng.randint(1, 4)
        seq = gen_seq(rng, depth, rng.randint(1, 4))
        cname = rng.choice(ctxs)
        if cname.startswith('section') and any(it[0] == 'A' for it in seq):
            cname = 'dollar'
        yield Case('msrc', '%s %s' % (CONTEXTS[cname][0], ' '.join(enc(seq))),
                   {'kind': 'msrc', 'ctx': cname, 'seed': rng.randrange(1 << 30), 'macros': rng.random() < 0.6})


def F(s):
    """tiny reader for corpus formulas: a string of plain characters"""
    return [('C', c) for c in s]


def corpus():
    v = cps('verbatim')
    cs = [
        # D11 witnesses: special characters as \verb delimiters
        Case('verb', '0 126 %s %s' % (cps('x \\y{z} % q'), cps('B')), {'kind': 'verb'}, 'corpus'),
        Case('verb', '0 38 %s %s' % (cps('x'), cps('B')), {'kind': 'verb'}, 'corpus'),
        Case('verb', '0 35 %s %s' % (cps('x'), cps('B')), {'kind': 'verb'}, 'corpus'),
        Case('verb', '0 36 %s %s' % (cps('x'), cps('B')), {'kind': 'verb'}, 'corpus'),
        Case('verb', '0 37 %s %s' % (cps('x'), cps('B')), {'kind': 'verb'}, 'corpus'),
        Case('verb', '0 92 %s %s' % (cps('x'), cps('B')), {'kind': 'verb'}, 'corpus'),
        Case('verbdoc', '0 126 %s %s' % (cps('x \\y{z} % q'), cps('B')), {'kind': 'verbdoc'}, 'corpus'),
        Case('verb', '0 123 %s %s' % (cps('x|y'), cps('B')), {'kind': 'verb'}, 'corpus'),
        Case('verb', '1 43 %s %s' % (cps(' verbatim \\tt text '), cps(' bye')), {'kind': 'verb'}, 'corpus'),
        # missed mutant c11a_2: character substitutions reaching \\verb content in a document with paragraph breaks
        Case('verbdocp', '0 124 %s %s' % (cps('prog --help'), cps('B')), {'kind': 'verbdocp'}, 'corpus'),
        Case('verbdocp', '1 43 %s %s' % (cps("``quoted'' it's a---b ?` !`"), cps(' after')), {'kind': 'verbdocp'}, 'corpus'),
        Case('vdocp', '1 %s %s %s' % (v, cps("\nprog --help ``q'' a---b\n"), cps(' after')), {'kind': 'vdocp'}, 'corpus'),
        Case('nsub', 'verb 0 %s' % cps("a--b''c"), {'kind': 'nsub'}, 'corpus'),
        Case('nsub', 'math 1 %s' % cps("a--b''c"), {'kind': 'nsub'}, 'corpus'),
        Case('nsub', 'textbf 0 %s' % cps("a--b''c"), {'kind': 'nsub'}, 'corpus'),
        # missed mutant c2: end marker named after the class instead of the name written in \\begin{...}
        Case('vdoca', '%s %s %s %s' % (cps('code'), v, cps('\nhow to close: \\end{verbatim}\nstill inside \\end{cod\n'), cps(' after')), {'kind': 'vdoca'}, 'corpus'),
        Case('vdocpa', '%s %s %s %s' % (cps('code'), v, cps('\nplain line\n'), cps('Z\\emph{Q}')), {'kind': 'vdocpa'}, 'corpus'),
        Case('venva', '%s %s %s %s' % (cps('code'), v, cps('a \\b{c} %d\n'), cps(' x')), {'kind': 'venva'}, 'corpus'),
        # missed mutants e1 / e3: user macros with an empty expansion, optional arguments with an empty default
        Case('msrc', 'inline ' + ' '.join(enc(F('a+b'))),
             {'kind': 'msrc', 'ctx': 'dollar', 'seed': 5, 'macros': True, 'written': 'a\\todo{x}+b'}, 'corpus'),
        Case('msrc', 'equation ' + ' '.join(enc(F('a+b'))),
             {'kind': 'msrc', 'ctx': 'equation+par', 'seed': 6, 'macros': True, 'written': '\\nothing a\\drop{y}+\\wrap{}b\\mo{}'}, 'corpus'),
        Case('msrc', 'inline ' + ' '.join(enc([('1', 'left', False, [BAR])] + F('x') + [('1', 'right', False, [BAR]), ('D', True, [])] + F('+1'))),
             {'kind': 'msrc', 'ctx': 'paren', 'seed': 7, 'macros': True, 'written': '\\norm{x}+1'}, 'corpus'),
        Case('msrc', 'display ' + ' '.join(enc([('1', 'left', False, [BAR])] + F('y') + [('1', 'right', False, [BAR]), ('D', True, F('2'))])),
             {'kind': 'msrc', 'ctx': 'bracket', 'seed': 8, 'macros': True, 'written': '\\norm[2]{y}'}, 'corpus'),
        Case('msrc', 'inline ' + ' '.join(enc(F('0ab'))),
             {'kind': 'msrc', 'ctx': 'textbf', 'seed': 9, 'macros': True, 'written': '\\optd{a}\\opt{b}'}, 'corpus'),
        # D15 witness: \endverbatim inside \begin{verbatim} ... \end{verbatim}
        Case('venv', '1 %s %s %s' % (v, cps('\na \\endverbatim b\n'), cps(' x')), {'kind': 'venv'}, 'corpus'),
        Case('vdoc', '1 %s %s %s' % (v, cps('\na \\endverbatim b\n'), cps(' after')), {'kind': 'vdoc'}, 'corpus'),
        Case('venv', '0 %s %s %s' % (v, cps('\na \\end{verbatim} b\n'), cps(' x')), {'kind': 'venv'}, 'corpus'),
        Case('venv', '1 %s %s %s' % (v, cps('\\end{verbatim\\end{verbati\\end{verbatim'), cps('')), {'kind': 'venv'}, 'corpus'),
        Case('venv', '1 %s %s %s' % (v, cps('a^^M%b  c\n\n---``'), cps('\nnext')), {'kind': 'venv'}, 'corpus'),
        # D16 witness: $ inside \text{..} inside $..$
        Case('msrc', 'inline ' + ' '.join(enc([('1', 'text', True, F('a') + [('S',), ('M', F('x')), ('S',)] + F('b')), ('C', '+'), ('C', '1')])),
             {'kind': 'msrc', 'ctx': 'dollar', 'seed': 1, 'macros': False}, 'corpus'),
        Case('msrc', 'inline ' + ' '.join(enc(F('a<b>c'))), {'kind': 'msrc', 'ctx': 'paren', 'seed': 2, 'macros': False}, 'corpus'),
        Case('msrc', 'display ' + ' '.join(enc([('Y', 'alpha'), ('Y', 'beta'), ('C', 'x'), ('U', False, [('Y', 'gamma')])])),
             {'kind': 'msrc', 'ctx': 'ddollar', 'seed': 3, 'macros': True}, 'corpus'),
        Case('msrc', 'inline ' + ' '.join(enc(F("x--y''") + [('C', '`'), ('C', '`')])), {'kind': 'msrc', 'ctx': 'dollar', 'seed': 4, 'macros': False},
             'corpus'),
    ]
    return cs


# ---------------------------------------------------------------- implementation side

def canon_exc(e):
    n = type(e).__name__
    return 'err:' + n if n in ('UnboundLocalError', 'IndexError', 'ValueError', 'StopIteration') else 'err:other:' + n


def new_tex(source):
    from plasTeX.TeX import TeX
    from plasTeX import TeXDocument
    from plasTeX.Base.TeX.Primitives import MathShift
    if hasattr(MathShift, "inEnv"):
        del MathShift.inEnv[:]  # class-level tracker before the D6a repair (C17); per document since then
    doc = TeXDocument()
    tex = TeX(doc)
    tex.input(source)
    return doc, tex


def unread(tex):
    """the characters the tokenizer has not consumed"""
    if not tex.inputs:
        return ''
    tk = tex.inputs[-1][0]
    return ''.join(tk._charBuffer) + tk.read()


def res_str(content, closed, resume):
    return '%s|%s|%s' % (cps0(content), 'true' if closed else 'false', cps0(resume))


def impl_venv(begun, name, inp):
    from plasTeX import Macro
    doc, tex = new_tex(inp)
    node = doc.createElement(name)
    node.macroMode = Macro.MODE_BEGIN if begun else Macro.MODE_NONE
    if begun:
        doc.context.currenvir = name
    toks = node.invoke(tex)
    content = ''.join(str(t) for t in toks[1:])
    tk = tex.inputs[-1][0] if tex.inputs else None
    closed = bool(tk) and any(getattr(t, 'macroMode', None) == Macro.MODE_END for t in tk._tokBuffer)
    return res_str(content, closed, unread(tex))


ALIASES = {'code': 'verbatim', 'listingx': 'verbatim', 'codestar': 'verbatim*'}


def alias_lets(written, cls):
    if cls.endswith('*'):
        return '\\expandafter\\let\\csname %s\\expandafter\\endcsname\\csname %s\\endcsname' \
               '\\expandafter\\let\\csname end%s\\expandafter\\endcsname\\csname end%s\\endcsname' % (written, cls, written, cls)
    return '\\let\\%s\\%s\\let\\end%s\\end%s' % (written, cls, written, cls)


def impl_venv_alias(written, cls, inp):
    """through the real `begin.invoke`: the tokens it pushes back are the node, the content characters and the end node"""
    from plasTeX import Macro, VerbatimEnvironment
    doc, tex = new_tex(alias_lets(written, cls) + '\\begin{%s}' % written + inp)
    content, closed, seen = [], False, False
    for t in tex:
        if getattr(t, 'nodeType', None) == Macro.ELEMENT_NODE:
            if not seen:
                seen = isinstance(t, VerbatimEnvironment)      # the \\let commands come first
                continue
            if t.macroMode == Macro.MODE_END:
                closed = True
            break
        if seen:
            content.append(str(t))
    return res_str(''.join(content), closed, unread(tex))


PIPE = "\\documentclass{article}\\begin{document}\nOrdinary -- text.\n\n%s\n\nMore ``text''.\n\\end{document}\n"
PIPE_PRE, PIPE_POST = ' Ordinary \u2013 text. ', ' More \u201ctext\u201d.'


def split_pipe(whole, content, piped):
    """the text after the verbatim node (`whole` = document text), or a MISPLACED/PIPELINE diagnosis"""
    pre = (PIPE_PRE if piped else '') + 'P' + content
    if not whole.startswith(pre):
        if piped and not whole.startswith(PIPE_PRE):
            return 'PIPELINE-INACTIVE:' + whole[:40]
        return 'MISPLACED:' + whole
    tail = whole[len(pre):]
    if not piped:
        return tail
    t = tail.rstrip()
    if not t.endswith(PIPE_POST.strip()):
        return 'PIPELINE-TAIL:' + tail
    t = t[:len(t) - len(PIPE_POST.strip())]
    return t[:-1] if t.endswith(' ') else t


def impl_vdoc(name, body, rest, piped=False, cls=None):
    text = 'P\\begin{%s}%s\\end{%s}%s' % (name, body, name, rest)
    if cls:
        text = alias_lets(name, cls) + ' ' + text
    doc, tex = new_tex(PIPE % text if piped else text)
    tex.parse()
    nodes = [n for n in doc.getElementsByTagName(cls or name) if n.macroMode != n.MODE_END]
    if len(nodes) != 1:
        return 'nodes:%d' % len(nodes)
    node = nodes[0]
    whole = doc.textContent
    content = node.textContent
    after = split_pipe(whole, content, piped)
    exp_after, must = DOC_RESTS[rest]
    ok = (after == exp_after or (piped and after.strip() == exp_after.strip() and not exp_after.strip())) \
        and (must is None or len(doc.getElementsByTagName(must)) >= 1)
    return res_str(content, True, rest if ok else 'AFTER:' + after)


def impl_verb(inp):
    doc, tex = new_tex(inp)
    node = doc.createElement('verb')
    toks = node.invoke(tex)
    star = bool(node.attributes.get('*modifier*'))
    ep = toks[1]
    closed = len(toks) > 2 and toks[-1] == ep
    node.digest(iter(toks[1:]))
    content = node.textContent
    return '%s|%s' % ('true' if star else 'false', res_str(content, closed, unread(tex)))


def impl_verbdoc(star, d, body, rest, piped=False):
    close = '}' if d == '{' else d
    text = 'P\\verb%s%s%s%s%s' % ('*' if star else '', d, body, close, rest)
    doc, tex = new_tex(PIPE % text if piped else text)
    tex.parse()
    nodes = doc.getElementsByTagName('verb')
    if len(nodes) != 1:
        return 'nodes:%d' % len(nodes)
    node = nodes[0]
    content = node.textContent
    whole = doc.textContent
    after = split_pipe(whole, content, piped)
    exp_after = {'B': 'B', ' after': ' after', 'Z\\emph{Q}': 'ZQ'}[rest]
    return '%s|%s' % ('true' if node.attributes.get('*modifier*') else 'false',
                      res_str(content, True, rest if after == exp_after else 'AFTER:' + after))


def real_lex(s):
    """the real tokenizer on `s`, blanks removed, in the driver's token notation"""
    from plasTeX.TeX import TeX
    from plasTeX.Tokenizer import Space, EscapeSequence
    out = []
    for t in TeX().input(s).itertokens():
        if isinstance(t, EscapeSequence):
            name = str(t)
            if '::' in name:
                name = 'active::' + name.split('::')[-1]
            out.append('E:' + ','.join(str(ord(c)) for c in name))
        elif isinstance(t, Space) or t.catcode == 10:
            continue
        else:
            out.append('%d:%d' % (t.catcode, ord(str(t))))
    return ' '.join(out)


def impl_msrc(case):
    meta = case.meta
    words = case.line.split()
    kind = words[0]
    seq, _ = dec(words, 1)
    rng = random.Random(meta['seed'])
    w = Writer(rng, meta.get('macros'))
    body = meta['written'] if meta.get('written') is not None else w.seq(seq)     # corpus cases spell the formula themselves
    cname = meta['ctx']
    text = (PREAMBLE if meta.get('macros') else '') + CONTEXTS[cname][1] % body
    meta['tex'] = text
    doc, tex = new_tex(text)
    tex.parse()
    nodes = doc.getElementsByTagName(TAG[kind])
    if not nodes:
        return 'no-node'
    node = nodes[0]
    return '%s|%s' % (cps0(node.source), cps0(node.mathjax_source))


def impl(case, aux):
    kind = case.meta['kind']
    w = case.line.split()
    try:
        if kind == 'venv':
            begun, name, body, rest = int(w[0]), uncps(w[1]), uncps(w[2]), uncps(w[3])
            esc_end = '\\end{%s}' % name if begun else '\\end%s' % name
            return impl_venv(begun, name, body + esc_end + rest)
        if kind in ('vdoc', 'vdocp'):
            return impl_vdoc(uncps(w[1]), uncps(w[2]), uncps(w[3]), kind == 'vdocp')
        if kind == 'venva':
            written, cls, body, rest = uncps(w[0]), uncps(w[1]), uncps(w[2]), uncps(w[3])
            return impl_venv_alias(written, cls, body + '\\end{%s}' % written + rest)
        if kind in ('vdoca', 'vdocpa'):
            return impl_vdoc(uncps(w[0]), uncps(w[2]), uncps(w[3]), kind == 'vdocpa', uncps(w[1]))
        if kind == 'nsub':
            return cps0(normalize_probe(w[0], uncps(w[2]), w[1] == '1'))
        if kind == 'venvraw':
            return impl_venv(int(w[0]), uncps(w[1]), uncps(w[2]))
        if kind == 'verb':
            star, d, body, rest = int(w[0]), chr(int(w[1])), uncps(w[2]), uncps(w[3])
            return impl_verb(('*' if star else '') + d + body + ('}' if d == '{' else d) + rest)
        if kind in ('verbdoc', 'verbdocp'):
            return impl_verbdoc(int(w[0]), chr(int(w[1])), uncps(w[2]), uncps(w[3]), kind == 'verbdocp')
        if kind == 'verbraw':
            return impl_verb(uncps(w[0]))
        if kind == 'msrc':
            return impl_msrc(case)
        if kind == 'mgrp':
            doc, tex = new_tex('T $x{%s}$ U' % uncps(w[0]))
            tex.parse()
            gs = doc.getElementsByTagName('math')[0].getElementsByTagName('bgroup')
            return cps0(gs[0].textContent) if len(gs) == 1 else 'groups:%d' % len(gs)
    except Exception as e:
        return canon_exc(e)
    raise ValueError(kind)


def _norm(s):
    # cps('') is '-' in requests but empty in answers
    return s


def judge(o):
    st = o.case.stream
    if st == 'msrc':
        o.corr_ok = (o.impl == o.model)
        if o.spec == '-':
            o.prop_ok = True
            return
        # property: the reconstructed source, re-tokenised by the real tokenizer, is (blanks aside) the formula's tokens
        if o.impl.startswith('err:') or o.impl == 'no-node':
            o.prop_ok = False
            o.note = 'no source'
            return
        srcw = o.impl.split('|')[0]
        relexed = real_lex(uncps(srcw))
        o.prop_ok = (relexed == o.spec)
        if not o.prop_ok:
            o.note = 'source %r re-tokenises to %s' % (uncps(srcw), relexed)
            return
        # the Spec's `toks` is what the real tokenizer makes of the expanded formula as written (ties Spec to the lexer)
        if len(o.aux) >= 3 and real_lex(uncps(o.aux[1])) != o.aux[2]:
            o.prop_ok = False
            o.note = 'Spec.toks differs from the real tokenizer on Spec.render'
            return
        # the model's own lexer agrees with the real one on the model string
        if o.corr_ok and o.aux and o.aux[0] != relexed:
            o.corr_ok = False
            o.note = 'tokenizer model differs from the real tokenizer on the source string'
        # mathjax payload: only < and > are rewritten
        parts = o.impl.split('|')
        mj = uncps(parts[1]) if len(parts) > 1 else ''
        s = uncps(srcw)
        want = s.replace('<', '\\lt ').replace('>', '\\gt ')
        if o.case.line.startswith('inline'):
            want = '\\(' + want[1:-1] + '\\)'
        if mj != want:
            o.prop_ok = False
            o.note = 'mathjax_source %r, expected %r' % (mj, want)
        return
    if st == 'mgrp':
        # either variant of the dual model is the code's behaviour; the property wants the characters unchanged
        o.corr_ok = (o.impl == o.model) or (bool(o.aux) and o.impl == o.aux[0])
        o.prop_ok = (o.impl == o.spec)
        if o.corr_ok and o.impl != o.model:
            o.note = 'implementation follows the as-is variant (D17)'
        return
    if st in ('vdoc', 'verbdoc', 'vdocp', 'verbdocp', 'vdoca', 'vdocpa') and o.spec == '-':
        # the body contains the complete end marker / closing delimiter: outside the domain, and the document-level
        # observation (text after the node) is not modelled for it; the component streams compare such inputs
        o.corr_ok = o.prop_ok = True
        return
    o.corr_ok = (o.impl == o.model)
    o.prop_ok = (o.spec == '-' or o.impl == o.spec)


def nontrivial(o):
    if o.spec in ('-', ''):
        return False
    st = o.case.stream
    w = o.case.line.split()
    if st == 'msrc':
        return len(w) >= 8
    if st in ('venva', 'vdoca', 'vdocpa'):
        return True
    if st in ('venv', 'vdoc', 'vdocp'):
        return any(c in uncps(w[2]) for c in SPECIALS)
    if st in ('verb', 'verbdoc', 'verbdocp'):
        return len(uncps(w[2])) > 0
    if st == 'nsub':
        return any(c in uncps(w[2]) for c in LIG_CH)
    if st == 'mgrp':
        return len(uncps(w[0])) > 1
    return False


# ---------------------------------------------------------------- shrinking and search

def _shrink_str_case(o, evaluate, idx):
    w = o.case.line.split()
    best = o
    improved = True
    while improved:
        improved = False
        w = best.case.line.split()
        s = uncps(w[idx])
        cands = []
        n = len(s)
        step = max(1, n // 2)
        while step >= 1:
            for i in range(0, n, step):
                cands.append(s[:i] + s[i + step:])
            step //= 2
        seen = set()
        cs = []
        for c in cands:
            if c in seen or len(c) >= n:
                continue
            seen.add(c)
            ww = list(w)
            ww[idx] = cps(c)
            cs.append(Case(o.case.stream, ' '.join(ww), dict(o.case.meta), 'shrink'))
        cs.sort(key=lambda c: len(c.line))
        for r in evaluate(cs[:200]):
            if not r.prop_ok:
                best, improved = r, True
                break
    return best


def _subseqs(seq):
    """smaller formulas: drop one item, or replace the formula by one of its sub-formulas"""
    out = []
    for i, it in enumerate(seq):
        out.append(seq[:i] + seq[i + 1:])
        for j, x in enumerate(it[1:], 1):
            if isinstance(x, list):
                out.append(x)
                for sub in _subseqs(x):
                    out.append(seq[:i] + [it[:j] + (sub,) + it[j + 1:]] + seq[i + 1:])
    return out


def _valid(seq, intext=False):
    for it in seq:
        k = it[0]
        if intext and k not in 'CSM': return False
        if k == 'M' and not intext: return False
        if k in 'UD' and not it[1] and len(it[2]) != 1: return False
        if k == '1' and not it[2] and len(it[3]) != 1: return False
        if k == '2' and ((not it[2] and len(it[3]) != 1) or (not it[4] and len(it[5]) != 1)): return False
        if k == 'R' and not it[2] and len(it[3]) != 1: return False
        if k in 'MA' and not it[-1]: return False
        for x in it[1:]:
            if isinstance(x, list) and not _valid(x, k == '1' and it[1] in BOXES): return False
    return True


def shrink(ctx, o, evaluate):
    st = o.case.stream
    if st in ('venv', 'vdoc', 'verb', 'verbdoc', 'vdocp', 'verbdocp', 'nsub', 'venva', 'vdoca', 'vdocpa'):
        return _shrink_str_case(o, evaluate, 2)
    if st != 'msrc' or (o.case.meta or {}).get('written') is not None:
        return o       # a corpus case spells its own writing: formula and writing belong together
    best = o
    for _ in range(30):
        w = best.case.line.split()
        seq, _i = dec(w, 1)
        cands = [s for s in _subseqs(seq) if s and _valid(s)]
        cands.sort(key=count_items)
        cs = [Case('msrc', w[0] + ' ' + ' '.join(enc(s)), dict(best.case.meta), 'shrink') for s in cands[:150]]
        nxt = None
        for r in evaluate(cs):
            if not r.prop_ok:
                nxt = r
                break
        if nxt is None:
            break
        best = nxt
    return best


def search(ctx, evaluate, corr_bad):
    """proof/tie broken but no spec mismatch in the main batch: shrinks of the disagreeing cases, then a larger
    seeded batch, all judged against the Spec oracle"""
    class C:
        pass
    c2 = C()
    c2.rng = random.Random(ctx.seed * 7919 + 13)
    c2.tier = 'thorough' if ctx.tier == 'thorough' else 'quick'
    cases = []
    for o in corr_bad[:20]:
        cases.append(o.case)
    batch = list(generate(c2))
    c2.rng.shuffle(batch)
    cases += batch[:6000]
    bad = [o for o in evaluate(cases) if not o.prop_ok]
    if bad:
        o = shrink(ctx, bad[0], evaluate)
        return Violation('implementation differs from the property oracle (found by search)',
                         {'kind': 'failing-input', 'outcome': o.to_json()})
    return None


# ---------------------------------------------------------------- document level: rendered HTML payload

HTML_FORMS = {   # how a formula stands in the rendered document -> node name
    'dollar': ('Q $%s$ W', 'math'), 'paren': ('Q \\(%s\\) W', 'math'), 'bracket': ('Q \\[%s\\] W', 'displaymath'),
    'ddollar': ('Q $$%s$$ W', 'displaymath'), 'equation': ('Q \\begin{equation}%s\\end{equation} W', 'equation'),
}


def _html_case(seed, n):
    """n (form, formula) pairs; every kind of formula node, with `<` / `>` standing directly before letters (what an HTML
    parser would take for a tag when the \\lt / \\gt protection is missing)"""
    rng = random.Random(seed)
    kinds = list(HTML_FORMS)
    forms = [(k, f) for k in kinds for f in ('0<x<y\\quad\\sqrt[n]{a>b}<p', 'a<b>c')]
    while len(forms) < n:
        seq = gen_seq(rng, rng.randint(1, 3), rng.randint(1, 3))
        if rng.random() < 0.6:
            k = rng.randint(0, len(seq))
            seq = seq[:k] + [('C', rng.choice('<>')), ('C', rng.choice(LETTERS))] + seq[k:]
        f = Writer(None, False).seq(seq)
        if '$' not in f:          # nested formulas have no payload of their own in the HTML
            forms.append((rng.choice(kinds), f))
    return forms


class _PageText:
    """the text a browser (and so MathJax) sees: character data of the page, entities decoded, tags dropped"""
    def __init__(self, page):
        from html.parser import HTMLParser
        out = []

        class H(HTMLParser):
            def handle_data(self, data):
                out.append(data)
        h = H(convert_charrefs=True)
        h.feed(page)
        h.close()
        self.text = ' '.join(''.join(out).split())


def _html_check(seed, n):
    forms = _html_case(seed, n)
    src = '\\documentclass{article}\\begin{document}\n' + '\n\n'.join(HTML_FORMS[k][0] % f for k, f in forms) + '\n\\end{document}\n'
    doc, page = _render_doc(src)
    text = _PageText(page).text
    bad = []
    names = set(v[1] for v in HTML_FORMS.values())
    nodes = []

    def walk(node, inside):
        for ch in getattr(node, 'childNodes', []):
            isf = getattr(ch, 'nodeName', None) in names and getattr(ch, 'macroMode', None) != getattr(ch, 'MODE_END', -1)
            if isf and not inside:
                nodes.append(ch)
            walk(ch, inside or isf)
    walk(doc, False)
    if len(nodes) != len(forms):
        bad.append('%d formula nodes for %d formulas' % (len(nodes), len(forms)))
    pos = 0
    for (k, f), node in zip(forms, nodes):
        want = ' '.join(node.mathjax_source.split())
        i = text.find(want, pos)
        if i < 0:
            bad.append('formula %r written as %r: payload %r is not in the text of the rendered page' % (f, HTML_FORMS[k][0] % f, want))
            break
        pos = i + len(want)
    return bad, len(nodes)


def _render_doc(source):
    """parse and render a document with the HTML5 renderer; returns (doc, concatenated html)"""
    import os, tempfile, shutil
    from plasTeX.TeX import TeX
    from plasTeX import TeXDocument
    from plasTeX.Config import defaultConfig
    from plasTeX.Renderers.HTML5 import Renderer
    from plasTeX.Renderers.HTML5.Config import addConfig
    config = defaultConfig()
    addConfig(config)
    config['images']['enabled'] = False
    config['images']['vector-imager'] = 'none'
    config['images']['imager'] = 'none'
    config['files']['split-level'] = -100
    d = tempfile.mkdtemp(prefix='c11html')
    cwd = os.getcwd()
    try:
        os.chdir(d)
        doc = TeXDocument(config=config)
        tex = TeX(doc)
        tex.input(source)
        tex.parse()
        Renderer().render(doc)
        out = ''
        for fn in sorted(os.listdir(d)):
            if fn.endswith('.html'):
                out += open(os.path.join(d, fn), encoding='utf-8').read()
        return doc, out
    finally:
        os.chdir(cwd)
        shutil.rmtree(d, ignore_errors=True)


def _verb_html_case(seed, n):
    """n verbatim items [(kind, delimiter-or-name, body)] with ligature sources, specials and repeated blanks"""
    rng = random.Random(seed)
    delims = [d for d in verb_delims() if d not in LIG_CH + '!?<>,']
    items = [('verb', '|', 'prog --help'), ('verb*', '+', "``quoted'' it's a---b"), ('verb', '/', '?` and !`'),
             ('verbatim', 'verbatim', "\nx -- y ``z'' <a> & b\n")]
    while len(items) < n:
        r = rng.random()
        lig = rng.choice(LIG_SOURCES)
        if r < 0.7:
            d = rng.choice(delims)
            close = '}' if d == '{' else d
            body = (gen_body(rng, 8) + lig + gen_body(rng, 8)).replace('\n', ' ').replace(close, '')
            items.append(('verb*' if rng.random() < 0.3 else 'verb', d, body))
        else:
            name = 'verbatim'      # the HTML5 renderer has no template for verbatim* (it falls back to running text): tree level only (vdocp)
            body = '\n' + gen_body(rng, 20) + lig + gen_body(rng, 10) + '\n'
            if '\\end{' + name + '}' in body:
                continue
            items.append((name, name, body))
    return items


def _verb_html_check(seed, n):
    import re, html
    items = _verb_html_case(seed, n)
    paras = []
    for kind, d, body in items:
        if kind.startswith('verbatim'):
            paras.append('Env:\\begin{%s}%s\\end{%s}' % (kind, body, kind))
        else:
            paras.append('Use \\verb%s%s%s%s here.' % ('*' if kind == 'verb*' else '', d, body, '}' if d == '{' else d))
    src = ("\\documentclass{article}\\begin{document}\nOrdinary --- with ``quotes'' first.\n\n" + '\n\n'.join(paras) +
           "\n\nOrdinary again -- it's normal.\n\\end{document}\n")
    doc, page = _render_doc(src)
    bad = []
    vb = [b for k, d, b in items if k.startswith('verb') and not k.startswith('verbatim')]
    eb = [b for k, d, b in items if k.startswith('verbatim')]
    tree_v = [x.textContent for x in doc.getElementsByTagName('verb')]
    tree_e = [x.textContent for x in doc.getElementsByTagName('verbatim') + doc.getElementsByTagName('verbatim*')]
    if tree_v != vb:
        bad.append('document tree: \\verb contents %r, written %r' % ([x for x in tree_v if x not in vb][:2], [x for x in vb if x not in tree_v][:2]))
    if sorted(tree_e) != sorted(eb):
        bad.append('document tree: verbatim contents %r, written %r' % ([x for x in tree_e if x not in eb][:2], [x for x in eb if x not in tree_e][:2]))
    html_v = [html.unescape(x) for x in re.findall(r'<code class="verbatim">(.*?)</code>', page, re.S)]
    html_e = [html.unescape(x) for x in re.findall(r'<pre class="verbatim">(.*?)</pre>', page, re.S)]
    if html_v != vb:
        bad.append('HTML: <code class="verbatim"> %r, written %r' % ([x for x in html_v if x not in vb][:2], [x for x in vb if x not in html_v][:2]))
    if sorted(html_e) != sorted(eb):
        bad.append('HTML: <pre class="verbatim"> %r, written %r' % ([x for x in html_e if x not in eb][:2], [x for x in eb if x not in html_e][:2]))
    whole = doc.textContent
    if '\u2014' not in whole or '\u201c' not in whole or 'it\u2019s normal' not in whole:
        bad.append('the ordinary text around the verbatim items was not processed normally')
    return bad, len(items), src


def extra_checks(ctx):
    viol, stats = [], {'evaluations': 0, 'distinct_nontrivial': 0, 'samples': []}
    docs = 2 if ctx.tier == 'quick' else 12
    for i in range(docs):
        seed = ctx.rng.randrange(1 << 30)
        try:
            bad, n = _html_check(seed, 25)
        except Exception as e:
            bad, n = ['renderer raised %r' % e], 0
        stats['evaluations'] += n
        stats['distinct_nontrivial'] += n
        if bad:
            viol.append(Violation('rendered \\( \\) payload differs from mathjax_source: ' + bad[0],
                                  {'kind': 'failing-input', 'extra': {'html_seed': seed, 'n': 25}, 'detail': bad[:3]}))
            break
    # verbatim text in the document tree and in the rendered HTML5 page, in a document with paragraph breaks
    for i in range(2 if ctx.tier == 'quick' else 12):
        seed = ctx.rng.randrange(1 << 30)
        try:
            bad, n, src = _verb_html_check(seed, 16)
        except Exception as e:
            bad, n, src = ['parser/renderer raised %r' % e], 0, ''
        stats['evaluations'] += n
        stats['distinct_nontrivial'] += n
        if bad:
            viol.append(Violation('verbatim text is not reproduced exactly (document tree / rendered HTML): ' + bad[0],
                                  {'kind': 'failing-input', 'extra': {'verb_html_seed': seed, 'n': 16}, 'detail': bad[:4],
                                   'document': src}))
            break
    return viol, stats


def replay_extra(ctx, extra):
    if 'verb_html_seed' in extra:
        try:
            bad, n, src = _verb_html_check(extra['verb_html_seed'], extra.get('n', 16))
        except Exception:
            return True
        return bool(bad)
    try:
        bad, n = _html_check(extra['html_seed'], extra.get('n', 25))
    except Exception:
        return True
    return bool(bad)
