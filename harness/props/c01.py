"""C01 - Tokenization follows TeX's lexical rules for every input and catcode table.

streams
  tok  : catcode-table operations + code points; implementation = Tokenizer over a real Context,
         model = Lean `tokenize`, property oracle = `tex_lex` below (TeXbook ch. 7/8 rules written
         independently over a char->code *map*, with the conventions DESIGN.md section 6/C01 records).
  code : `whichCode` of characters after table operations; oracle = the map semantics of \\catcode.
"""
import logging, itertools, zlib
import extract
from framework import Case, Violation

ID = 'C01'
LEAN_MODULE = 'PlasVerif.Properties.C01'
LEVEL_TEXT = ('Lean 4 theorems over a line-by-line model of Tokenizer.iterchars/__iter__ and Context.whichCode/catcode: '
              'catcode tables reachable by any sequence of \\catcode assignments from the default or verbatim table stay a partition (invariant by induction), '
              'an assignment changes exactly that character (map semantics, lookup order irrelevant); tokenizing is a total terminating function; every character token '
              'carries the category of its class which is the current category of its character (for all inputs and tables); no two adjacent \\par; verbatim table = one token per character; '
              'and one rule theorem per clause of the statement (control word/symbol, blank skipping and collapsing, blank line, comment, ^^X, ignored). '
              'Tables and token classes are regenerated from the live code each run; the model is tied to the real Tokenizer by exhaustive short strings and seeded long strings under many tables, '
              'and the property oracle is an independent Python rendering of TeX\'s rules.')
LEVEL_NOTE = ('Trusted: Lean kernel, translator (reads DEFAULT_CATEGORIES/VERBATIM_CATEGORIES/tokenClasses from the imported module, lookup order by AST), correspondence harness, '
              'the Python oracle tex_lex used for the failing-input search. Not modelled: \\let aliasing of tokens (get_let), lineNumber, file/bytes decoding (the bytes, open-file, TeX.input and TeX(file=) entry points are required to give the tokens of the string entry on a sixteenth of the cases; assignments made by the \\catcode primitive inside the text are tied by prim documents against dynRun); ^^xy hex form and chained ^^ decoding are not implemented by plasTeX and are outside the statement (recorded deviations).')
TECHNIQUE = 'Lean 4 proof (invariant induction over catcode assignments; functional induction over the tokenizer) + regenerated tables + exhaustive/seeded differential correspondence'
TRUSTED = ['python oracle harness/props/c01.py:tex_lex (property-level reference lexer used for prop_ok and the search)']
ASSUMPTIONS = ['string sources only (no byte decoding)', 'no \\let aliases in force while tokenizing', 'category codes 0..15', 'no lone surrogates in the input']
RULE = ('exhaustive: every pair of successive \\catcode assignments (16x16) for 4 characters; every string of length <= L over a 13-symbol class-representative alphabet under 4 tables (L=4 quick, 5 thorough); '
        'seeded: random strings (<=200 chars) over the adversarial alphabet under default/@-letter/verbatim/1-6 random reassignments; '
        'non-trivial = the token stream is non-empty and exercises at least one of: escape, blank handling, comment, ^^, par, ignored; distinct = distinct request line')
EXHAUSTIVE = {'quick': 'all strings of length <= 4 over the 13-symbol alphabet x 4 tables', 'thorough': 'all strings of length <= 5 over the 13-symbol alphabet x 4 tables'}

logging.disable(logging.CRITICAL)

# ---------------------------------------------------------------- translator

def gen_catcodes():
    import ast, inspect
    from plasTeX import Tokenizer as T, Context as C, encoding
    def table(name):
        cats = getattr(T, name)
        if not (isinstance(cats, list) and len(cats) == 16 and all(isinstance(x, str) for x in cats)):
            raise ValueError(name)
        return '[' + ', '.join(extract.lean_nat_list([ord(ch) for ch in x]) for x in cats) + ']'
    # lookup order of Context.whichCode by AST: `if char in c[Token.CC_X]: return Token.CC_X`
    mode = 'exact'
    try:
        src = inspect.getsource(C.Context.whichCode)
        import textwrap
        fn = ast.parse(textwrap.dedent(src)).body[0]
        order = []
        for st in fn.body:
            if isinstance(st, ast.If) and isinstance(st.test, ast.Compare) and isinstance(st.test.ops[0], ast.In):
                sub = st.test.comparators[0]
                nm = sub.slice.attr if isinstance(sub.slice, ast.Attribute) else None
                ret = st.body[0].value.attr
                if nm is None or nm != ret:
                    raise ValueError('class/return mismatch %s %s' % (nm, ret))
                order.append(int(getattr(T.Token, nm)))
        if sorted(order) != [i for i in range(16) if i != 12]:
            raise ValueError('order %r' % order)
    except Exception:
        # lookup order is irrelevant on partition tables (theorem whichCode_order_irrelevant); correspondence stream `code` validates whichCode itself
        order = [11, 10, 5, 1, 2, 0, 7, 8, 3, 4, 14, 13, 6, 9, 15]
        mode = 'exact tables; lookup order assumed (AST pattern not found; irrelevant by theorem whichCode_order_irrelevant)'
    tc = []
    for code, cls in enumerate(T.Tokenizer.tokenClasses):
        if cls is not None:
            tc.append('(%d, %d)' % (code, int(cls.catcode)))
    letters = encoding.stringletters()
    src = (extract.HEADER % ('plasTeX/Tokenizer.py (DEFAULT_CATEGORIES, VERBATIM_CATEGORIES, Tokenizer.tokenClasses), plasTeX/Context.py (whichCode order), plasTeX/encoding.py', mode) +
           'namespace PlasVerif.Generated.Catcodes\n'
           'def defaultTable : List (List Nat) := %s\n'
           'def verbatimTable : List (List Nat) := %s\n'
           'def lookupOrder : List Nat := %s\n'
           'def tokenClassCat : List (Nat × Nat) := [%s]\n'
           'def asciiLetters : List Nat := %s\n'
           'end PlasVerif.Generated.Catcodes\n') % (table('DEFAULT_CATEGORIES'), table('VERBATIM_CATEGORIES'), extract.lean_nat_list(order),
                                                    ', '.join(tc), extract.lean_nat_list([ord(c) for c in letters]))
    return 'PlasVerif/Generated/Catcodes.lean', src, mode


GENERATED = [gen_catcodes]

# ---------------------------------------------------------------- property oracle (independent of the model)

LETTERS = 'abcdefghijklmnopqrstuvwxyzABCDEFGHIJKLMNOPQRSTUVWXYZ'


def default_map():
    m = {'\\': 0, '{': 1, '}': 2, '$': 3, '&': 4, '\n': 5, '#': 6, '^': 7, '_': 8, '\x00': 9, ' ': 10, '\t': 10, '\r': 10, '\f': 10, '~': 13, '%': 14}
    for c in LETTERS:
        m[c] = 11
    return m


def apply_ops_map(ops):
    m = default_map()
    for op in ops:
        if op == 'D':
            m = default_map()
        elif op == 'V':
            m = {c: 11 for c in LETTERS}
        else:
            a, b = op.split('=')
            m[chr(int(a))] = int(b)       # \catcode`c=k : c has code k, nothing else changes
    return m


class TexLexer:
    """TeX's lexical rules (TeXbook ch. 7-8) over a char->category map `m` (a dict the caller may change between pulls;
    unlisted characters are 'other' (12)), pulled one token at a time like TeX's get_next.
    Conventions of plasTeX the statement is silent about (DESIGN.md C01): control symbol/`\\ ` leave state M, `\\`+EOL is a
    space (state S), `\\` at end of input is the empty control sequence, only the one-character ^^X form, a second
    consecutive \\par is suppressed, active characters are control sequences named active::c."""

    def __init__(self, m, s):
        self.m, self.s, self.i = m, list(s), 0
        self.state, self.prevpar = 'N', False

    def cat(self, c):
        return self.m.get(c, 12)

    def nxt(self, i):
        # next significant character at or after i: (code, char, index after it) or None
        s = self.s
        while i < len(s):
            c = s[i]
            k = self.cat(c)
            if k == 7 and i + 2 < len(s) and s[i + 1] == c:
                o = ord(s[i + 2])
                x = chr(o - 64) if o >= 64 else chr(o + 64)
                k = self.cat(x)
                c = x
                i += 2
            if k in (9, 15):
                i += 1
                continue
            return k, c, i + 1
        return None

    def skipline(self, i):
        s = self.s
        while i < len(s) and s[i] != '\n':
            i += 1
        return i + 1

    def emit(self, tok, state, par=False):
        self.state, self.prevpar = state, par
        return tok

    def pull(self):
        while True:
            r = self.nxt(self.i)
            if r is None:
                self.i = len(self.s)
                return None
            k, c, self.i = r
            if k == 0:
                r2 = self.nxt(self.i)
                if r2 is None:
                    self.i = len(self.s)
                    return self.emit((0, ''), 'M')
                k2, c2, j = r2
                if k2 == 11:
                    name = c2
                    while True:
                        r3 = self.nxt(j)
                        if r3 is None or r3[0] != 11:
                            break
                        name += r3[1]; j = r3[2]
                    if r3 is not None:
                        # the character that ended the name is examined again (in its decoded form)
                        self.s[:r3[2]] = [r3[1]]
                        j = 0
                    self.i = j
                    return self.emit((0, name), 'S', name == 'par')
                self.i = j
                if k2 == 5:
                    return self.emit((10, ' '), 'S')
                return self.emit((0, c2), 'M')
            elif k == 5:
                st = self.state
                if st == 'N':
                    if c != '\n':
                        self.i = self.skipline(self.i)
                    if not self.prevpar:
                        return self.emit((0, 'par'), 'N', True)
                elif st == 'M':
                    return self.emit((10, ' '), 'N')
                self.state = 'N'
            elif k == 10:
                if self.state == 'M':
                    return self.emit((10, ' '), 'S')
            elif k == 14:
                self.i = self.skipline(self.i); self.state = 'N'
            elif k == 13:
                return self.emit((0, 'active::' + c), 'M')
            else:
                return self.emit((k, c), 'M')


def tex_lex(m, s):
    lx = TexLexer(m, s)
    out = []
    while True:
        t = lx.pull()
        if t is None:
            return out
        out.append(t)


def apply_op_map(m, op):
    if op == 'D':
        m.clear(); m.update(default_map())
    elif op == 'V':
        m.clear(); m.update({c: 11 for c in LETTERS})
    else:
        a, b = op.split('=')
        m[chr(int(a))] = int(b)


def tex_lex_dyn(sched, s):
    """schedule = [(ops, n), ...]: apply the \\catcode operations, pull n tokens, ...; finally pull everything"""
    m = default_map()
    lx = TexLexer(m, s)
    out = []
    for ops, n in sched:
        for op in ops:
            apply_op_map(m, op)
        for _ in range(n):
            t = lx.pull()
            if t is None:
                break
            out.append(t)
    while True:
        t = lx.pull()
        if t is None:
            return out
        out.append(t)


def interpret_prim(text):
    """Run TeX's lexer over `text`, executing every `\\catcode<digits>=<digits> ` it meets the way TeX does (the assignment
    takes effect for the characters read after the number's terminating space; plasTeX's number scanner additionally
    requests one more token before returning, which `prim` documents pin to the never-recategorised letter z).
    Returns (schedule, counts, tokens-with-the-commands-removed) or None when the text is not of that shape."""
    m = default_map()
    lx = TexLexer(m, text)
    sched, counts, out = [], [], []
    ops, n = [], 0
    while True:
        t = lx.pull()
        if t is None:
            break
        n += 1
        if t != (0, 'catcode'):
            out.append(t)
            continue
        cmd = [t]
        def digits():
            ds = ''
            while True:
                u = lx.pull()
                if u is None:
                    return ds, None
                cmd.append(u)
                if u[0] == 12 and u[1] in '0123456789':
                    ds += u[1]
                else:
                    return ds, u
        a, u = digits()
        if not a or u != (12, '='):
            return None
        b, u = digits()
        if not b or u != (10, ' ') or int(b) > 15 or int(a) > 0x10ffff:
            return None
        z = lx.pull()
        if z != (11, 'z'):
            return None
        out.append(z)
        n += len(cmd) - 1 + 1
        sched.append((ops, n)); counts.append(len(cmd))
        ops, n = ['%d=%d' % (int(a), int(b))], 0
        m[chr(int(a))] = int(b)
    sched.append((ops, 0)); counts.append(0)
    return sched, counts, out


PRIM_CHARS = '!@^%{\nxM~|\u03bb\u20ac\u4e2d'      # characters a `prim` document recategorises; \\, the letters of "catcode", z, digits, = and the blank keep their default codes


def gen_prim(rng):
    alpha = '!!@^^%{\n\nxM~| ab\\\u03bb\u03bb\u20ac\u4e2d'
    text = ''
    for _ in range(rng.randint(1, 4)):
        text += ''.join(rng.choice(alpha) for _ in range(rng.randint(0, 8)))
        text += '\\catcode%d=%d z' % (ord(rng.choice(PRIM_CHARS)), rng.randint(0, 15))
    text += ''.join(rng.choice(alpha) for _ in range(rng.randint(0, 10)))
    r = interpret_prim(text)
    if r is None or len(r[0]) < 2:
        return None
    sched, counts, _ = r
    return Case('dyn', ' ; '.join(' '.join(o) + ' ; %d' % k_ for o, k_ in sched) + ' | ' + enc(text), {'prim': counts})


def strip_prim(canon_s, sched, counts):
    """remove the tokens of the \\catcode commands (the last counts[i] of segment i's pulls, before its look-ahead z)"""
    toks = canon_s.split(' ') if canon_s else []
    out, i = [], 0
    for (ops, n), c in zip(sched, counts):
        seg = toks[i:i + n]; i += n
        if c:
            if len(seg) != n or seg[n - c - 1] != 'E:99,97,116,99,111,100,101':
                return None
            seg = seg[:n - c - 1] + seg[n - 1:]
        out += seg
    return ' '.join(out + toks[i:])


# ---------------------------------------------------------------- generation

ALPHA13 = ['\\', '{', '%', '^', ' ', '\n', 'a', '1', '@', '\x00', '\r', 'M', '~']
TABLES4 = [['D'], ['D', '64=11'], ['V'], ['D', '49=0', '97=14', '13=5', '77=7']]
ADV = list('\\\\{}$&#^^^__~%%  \t\n\n\r\x00ab cdparM@?1290[]`\'"-<>|/') + ['é', 'ß', '中', '\U0001d54f', '\x7f', '\x1e', '\x1f', '^^M', '^^@', '^^?', '^^', '\\par', '\\ ', '\\\n', '  ', '\n\n',
       # characters that are not stable under Unicode normalisation / case folding: a token holds the character it was made from
       '\u212a', '\u2126', '\u212b', '\u0958', 'e\u0301', '\ufb01', '\u1e9e', '\u0130', '\u03bb', '\u20ac', '\U0001f600']


def enc(s):
    return ' '.join(str(ord(c)) for c in s)


def line(ops, s):
    return ' '.join(ops) + ' | ' + enc(s)


def rand_table(rng):
    r = rng.random()
    if r < 0.3: return ['D']
    if r < 0.4: return ['D', '64=11']
    if r < 0.5: return ['V']
    ops = ['D'] if rng.random() < 0.85 else ['V']
    for _ in range(rng.randint(1, 6)):
        c = rng.choice(['\\', '{', '}', '$', '%', '^', '_', ' ', '\n', '\r', 'a', 'b', 'M', '@', '1', '!', '|', '~', '\x00', '\t', 'é', '/',
                        '\u03bb', '\u20ac', '\u4e2d', '\u212a', '\U0001f600'])     # assignments are not limited to 8-bit characters
        ops.append('%d=%d' % (ord(c), rng.randint(0, 15)))
    return ops


def generate(ctx):
    rng = ctx.rng
    L = 4 if ctx.tier == 'quick' else 5
    for ops in TABLES4:
        for n in range(0, L + 1):
            for tup in itertools.product(ALPHA13, repeat=n):
                yield Case('tok', line(ops, ''.join(tup)), None)
    # reassignment chains: every pair (and sampled triples) of successive category codes for one character
    for c in ('!', 'a', '\\', '%'):
        for k1 in range(16):
            for k2 in range(16):
                ops = ['D', '%d=%d' % (ord(c), k1), '%d=%d' % (ord(c), k2)]
                yield Case('code', line(ops, c + 'b\\'), None)
                yield Case('tok', line(ops, 'a' + c + 'b ' + c + c + 'M\\' + c + ' x'), None)
    for _ in range(600 if ctx.tier == 'quick' else 6000):
        c = rng.choice('!a\\%^ @')
        ops = [rng.choice(['D', 'V'])] + ['%d=%d' % (ord(c), rng.randint(0, 15)) for _ in range(rng.randint(3, 5))]
        yield Case('code', line(ops, c + 'b'), None)
        yield Case('tok', line(ops, 'x' + c + 'y' + c + c + 'z'), None)
    # category changes *between token pulls* (what \\catcode in a document does): schedule `ops ; n ; ops ; n ...`
    for _ in range(3000 if ctx.tier == 'quick' else 60000):
        segs = []
        for _ in range(rng.randint(1, 4)):
            c = rng.choice('!a\\%^ @{\n\u03bb')
            ops = ['%d=%d' % (ord(c), rng.randint(0, 15)) for _ in range(rng.randint(0, 2))]
            if rng.random() < 0.1:
                ops.insert(0, rng.choice(['D', 'V']))
            segs.append((ops, rng.randint(0, 4)))
        alpha = '!!aa\\\\%^^ @@{\n\nxM\u03bb\u03bb'
        s_ = ''.join(rng.choice(alpha) for _ in range(rng.randint(0, 14)))
        yield Case('dyn', ' ; '.join(' '.join(o) + ' ; %d' % k_ for o, k_ in segs) + ' | ' + enc(s_), None)
    # the same, with the assignments made by the \\catcode primitive inside the document (all 16 codes)
    for c in PRIM_CHARS:
        for k in range(16):
            r = interpret_prim('a%sb\\catcode%d=%d za%sb%s%s x' % (c, ord(c), k, c, c, c))
            if r is not None:
                yield Case('dyn', ' ; '.join(' '.join(o) + ' ; %d' % k_ for o, k_ in r[0]) + ' | ' + enc('a%sb\\catcode%d=%d za%sb%s%s x' % (c, ord(c), k, c, c, c)), {'prim': r[1]})
    for _ in range(1500 if ctx.tier == 'quick' else 30000):
        c_ = gen_prim(rng)
        if c_ is not None:
            yield c_
    # long inputs: the reader's buffering must not show (a ^^X, control word, comment or blank run that straddles any
    # internal block boundary is lexed like anywhere else)
    for B in (255, 256, 511, 512, 1023, 1024, 2047, 2048, 4095, 4096, 8191, 8192, 16383, 16384, 65535, 65536):
        for frag in ('^^Ib', '^^@x', '\\par\\par x', '\\ab  c', '%c\n\n x', 'a  \n  \n b', '\\^^M x', '^^'):
            for delta in ((-2, -1, 0, 1) if ctx.tier == 'quick' else range(-6, 3)):
                if B + delta >= 0 and (ctx.tier != 'quick' or B <= 16384):
                    yield Case('tok', line(['D'], 'a' * (B + delta) + frag), None)
    for _ in range(12 if ctx.tier == 'quick' else 150):
        parts, total = [], 0
        while total < 20000:
            t = rng.choice(ADV); parts.append(t); total += len(t)
        yield Case('tok', line(rand_table(rng) if rng.random() < 0.5 else ['D'], ''.join(parts)), None)
    n = 6000 if ctx.tier == 'quick' else 150000
    for _ in range(n):
        k = rng.choice([3, 6, 10, 20, 40, 200]) if rng.random() < 0.9 else rng.randint(0, 8)
        s = ''.join(rng.choice(ADV) for _ in range(rng.randint(0, k)))
        yield Case('tok', line(rand_table(rng), s), None)
    for _ in range(n // 10):
        ops = rand_table(rng)
        chars = [rng.choice(ADV)[0] for _ in range(8)] + [chr(int(o.split('=')[0])) for o in ops if '=' in o]
        yield Case('code', line(ops, ''.join(chars)), None)


def corpus():
    return [
        Case('tok', line(['D'], 'a^^'), None, 'corpus'),                 # D1: ^^ at end of input
        Case('tok', line(['D'], '^^'), None, 'corpus'),
        Case('tok', line(['D', '64=11'], '\\foo@ x'), None, 'corpus'),   # D14: control word ending in a non-ASCII-letter letter
        Case('tok', line(['D', '97=12'], '\\a x'), None, 'corpus'),      # D14: control symbol that is an ASCII letter
        Case('tok', line(['D'], '\\ab^^M x'), None, 'corpus'),
        Case('tok', line(['D'], 'a\n\n\n\nb\\par\n\nc'), None, 'corpus'),
        Case('tok', line(['D'], 'x % c\n  y\\'), None, 'corpus'),
        Case('tok', line(['D'], '\\a^'), None, 'corpus'),
        Case('dyn', 'D ; 1 ; 33=11 ; 0 | ' + enc('!!!'), None, 'corpus'),          # \catcode`\!=11 between two reads of the same character
        Case('dyn', 'D ; 1 ; 64=11 ; 0 | ' + enc('\\f@@ x'), None, 'corpus'),
        Case('dyn', ' ; 1 ; 94=14 ; 1 | ' + enc('\\a^@'), None, 'corpus'),            # D50: comment while the push-back buffer is not empty      # the pushed-back character is re-read under the new table
    ]


def nontrivial(o):
    return bool(o.impl) and any(w in o.case.line.split('|')[1].split() for w in ('92', '32', '37', '94', '10', '0', '9', '13'))


# ---------------------------------------------------------------- implementation side

_env = {}


def _ctx():
    if 'doc' not in _env:
        from plasTeX import TeXDocument
        _env['doc'] = TeXDocument()
    return _env['doc'].context


def parse_line(case):
    ops, cps = case.line.split('|')
    return ops.split(), ''.join(chr(int(x)) for x in cps.split())


def set_table(ctx, ops):
    from plasTeX.Tokenizer import DEFAULT_CATEGORIES
    ctx.contexts[-1].categories = ctx.categories = DEFAULT_CATEGORIES[:]
    for op in ops:
        if op == 'D':
            ctx.contexts[-1].categories = ctx.categories = DEFAULT_CATEGORIES[:]
        elif op == 'V':
            ctx.setVerbatimCatcodes()
        else:
            a, b = op.split('=')
            ctx.catcode(chr(int(a)), int(b))


def canon(pairs):
    out = []
    for cat, txt in pairs:
        if cat == 10 and txt == ' ':
            out.append('S')
        elif cat == 0:
            out.append('E:' + ','.join(str(ord(c)) for c in txt))
        elif len(txt) == 1:
            out.append('%d:%d' % (cat, ord(txt)))
        else:
            out.append('X:%r:%r' % (cat, txt))
    return ' '.join(out)


def parse_dyn(case):
    schedw, cps = case.line.split('|')
    parts = [x.split() for x in schedw.split(';')]
    sched = [(parts[i], int(parts[i + 1][0])) for i in range(0, len(parts) - 1, 2)]
    return sched, ''.join(chr(int(x)) for x in cps.split())


def entry_points(ctx, ops, s):
    import tempfile, os
    from plasTeX.Tokenizer import Tokenizer
    from plasTeX.TeX import TeX
    out = []
    def run(name, f):
        set_table(ctx, ops)
        try:
            out.append((name, canon([(t.catcode, str(t)) for t in f()])))
        except Exception as e:
            out.append((name, 'err:' + type(e).__name__))
    run('bytes', lambda: Tokenizer(s.encode('utf-8'), ctx))
    run('TeX.input', lambda: TeX(_env['doc']).input(s).itertokens())
    d = tempfile.mkdtemp(prefix='c01-')
    path = os.path.join(d, 'job.tex')
    try:
        with open(path, 'w', encoding='utf-8', newline='') as fh:
            fh.write(s)
        def fileobj():
            with open(path, encoding='utf-8', newline='') as fh:
                return list(Tokenizer(fh, ctx))
        run('file-object', fileobj)
        def texfile():
            tex = TeX(_env['doc'], file=path)
            try:
                return list(tex.itertokens())
            finally:
                while tex.inputs:
                    tex.endInput()
        run('TeX(file=)', texfile)
    finally:
        try:
            os.remove(path)
        except OSError:
            pass
        os.rmdir(d)
    return out


def impl(case, aux):
    from plasTeX.Tokenizer import Tokenizer
    ctx = _ctx()
    if case.stream == 'dyn' and case.meta and 'prim' in case.meta:
        # the document itself carries the \\catcode commands; the real primitive executes them
        from plasTeX.TeX import TeX
        sched, s = parse_dyn(case)
        set_table(ctx, [])
        out = []
        try:
            tex = TeX(_env['doc'])
            tex.input(s)
            for t in tex.itertokens():
                if getattr(t, 'nodeType', None) == 1:
                    return 'err:element-in-token-stream'
                if t.catcode == 0 and str(t) == 'catcode':
                    _env['doc'].createElement('catcode').invoke(tex)
                else:
                    out.append((t.catcode, str(t)))
            return canon(out)
        except Exception as e:
            return 'err:' + type(e).__name__
    if case.stream == 'dyn':
        sched, s = parse_dyn(case)
        set_table(ctx, [])
        out = []
        try:
            it = iter(Tokenizer(s, ctx))
            for ops, n in sched:
                for op in ops:
                    if op == 'D':
                        set_table(ctx, [])
                    elif op == 'V':
                        ctx.setVerbatimCatcodes()
                    else:
                        a, b = op.split('=')
                        ctx.catcode(chr(int(a)), int(b))
                for _ in range(n):
                    t = next(it, None)
                    if t is None:
                        break
                    out.append((t.catcode, str(t)))
            out += [(t.catcode, str(t)) for t in it]
            return canon(out)
        except Exception as e:
            return 'err:' + type(e).__name__
    ops, s = parse_line(case)
    set_table(ctx, ops)
    if case.stream == 'code':
        return ' '.join(str(int(ctx.whichCode(c))) for c in s)
    try:
        base = canon([(t.catcode, str(t)) for t in Tokenizer(s, ctx)])
    except Exception as e:
        return 'err:' + type(e).__name__
    if '\r' not in s and zlib.crc32(case.line.encode()) % 16 == 0:
        # the same text through the other ways a user hands it to plasTeX: bytes, an open file, TeX.input, TeX(file=...)
        # (text-mode files translate \r, so texts with \r are compared on the string entry only)
        alt = entry_points(ctx, ops, s)
        for name, r in alt:
            if r != base:
                return 'entry-mismatch:%s:%s' % (name, r)
    return base


def judge(o):
    if o.case.stream == 'dyn' and o.case.meta and 'prim' in o.case.meta:
        sched, s = parse_dyn(o.case)
        counts = o.case.meta['prim']
        full = canon(tex_lex_dyn(sched, s))
        o.spec = strip_prim(full, sched, counts)
        model = strip_prim(o.model, sched, counts)
        if o.spec is None:                 # not a well-formed prim document (hand-made replay): nothing is claimed
            o.spec = '-'; o.corr_ok = o.prop_ok = True; o.in_domain = False
            return
        o.corr_ok = (o.impl == model)
        o.prop_ok = (o.impl == o.spec)
        return
    if o.case.stream == 'dyn':
        sched, s = parse_dyn(o.case)
        o.spec = canon(tex_lex_dyn(sched, s))
        o.corr_ok = (o.impl == o.model)
        o.prop_ok = (o.impl == o.spec)
        return
    ops, s = parse_line(o.case)
    m = apply_ops_map(ops)
    if o.case.stream == 'code':
        exp = ' '.join(str(m.get(c, 12)) for c in s)
    else:
        exp = canon(tex_lex(m, s))
    o.spec = exp
    o.corr_ok = (o.impl == o.model)
    o.prop_ok = (o.impl == exp)


def shrink(ctx, o, evaluate):
    """delta-debug the string (and drop table ops) keeping the property failure"""
    if o.case.stream == 'dyn' and o.case.meta:
        return o
    if o.case.stream == 'dyn':
        best = o
        changed = True
        while changed:
            changed = False
            sched, s = parse_dyn(best.case)
            cands = [(sched, s[:i] + s[i + 1:]) for i in range(len(s))]
            cands += [(sched[:i] + sched[i + 1:], s) for i in range(len(sched)) if len(sched) > 1]
            cands += [(sched[:i] + [(sched[i][0][:j] + sched[i][0][j + 1:], sched[i][1])] + sched[i + 1:], s)
                      for i in range(len(sched)) for j in range(len(sched[i][0]))]
            cs = [Case('dyn', ' ; '.join(' '.join(o_) + ' ; %d' % k_ for o_, k_ in a) + ' | ' + enc(b), None, 'shrink') for a, b in cands]
            for r in evaluate(cs[:300]):
                if not r.prop_ok:
                    best = r; changed = True; break
        return best
    ops, s = parse_line(o.case)
    best = o
    changed = True
    while changed:
        changed = False
        ops, s = parse_line(best.case)
        cands = []
        for i in range(len(s)):
            cands.append((ops, s[:i] + s[i + 1:]))
        for i in range(len(ops)):
            if len(ops) > 1:
                cands.append((ops[:i] + ops[i + 1:], s))
        for step in (len(s) // 2, len(s) // 4):
            if step > 1:
                for i in range(0, len(s), step):
                    cands.insert(0, (ops, s[:i] + s[i + step:]))
        cs = [Case(o.case.stream, line(a or ['D'], b), None, 'shrink') for a, b in cands]
        for r in evaluate(cs[:400]):
            if not r.prop_ok:
                best = r
                changed = True
                break
    return best


def search(ctx, evaluate, corr_bad):
    import random
    rng = random.Random(ctx.seed + 104729)
    cases = []
    for o in corr_bad[:50]:
        cases.append(o.case)
    for _ in range(60000):
        s = ''.join(rng.choice(ADV) for _ in range(rng.randint(0, rng.choice([4, 8, 30]))))
        cases.append(Case('tok', line(rand_table(rng), s), None, 'search'))
    bad = [o for o in evaluate(cases) if not o.prop_ok]
    if bad:
        o = shrink(ctx, min(bad, key=lambda x: len(x.case.line)), evaluate)
        return Violation('implementation differs from TeX\'s lexical rules (found by search)', {'kind': 'failing-input', 'outcome': o.to_json()})
    return None
