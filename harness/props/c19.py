"""C19 - ifthen tests evaluate as the boolean expression they spell.

streams
  tree : expression trees of the Spec grammar (prefix encoded); the driver linearises them,
         runs Model.evaluate and Spec.den; the implementation side calls the real
         `ifthenelse.evaluate` on real tokens.
  doc  : the same trees spelled as LaTeX (`\\ifthenelse{..}{T}{F}` with every kind of atom),
         parsed by the real interpreter; observation = branch marker in textContent.
  rpn  : arbitrary (also malformed) token lists: implementation vs model only (exceptions included).
  while: `\\whiledo` counter loops, 0..6 iterations.
"""
import logging
import extract
from framework import Case, Violation

ID = 'C19'
LEAN_MODULE = 'PlasVerif.Properties.C19'
LEVEL_TEXT = ('Lean 4 theorems over a line-by-line model of ifthenelse.evaluate / whiledo.invoke: shunting_yard_correct proves, for every '
              'expression tree of the property grammar at any depth (\\not anywhere an operand may stand, \\and/\\or left to right, \\( \\) grouping), '
              'that the evaluator returns exactly the denotation and never raises; then_xor_else, redundant_parens_irrelevant, double_not and '
              'whiledo_iterates_exactly (body runs exactly n times) are corollaries/inductions. The precedence table is regenerated from the live '
              'code on every run, and the model is tied to the code by differential execution of real token lists and real documents. '
              'Atom macros (\\equal, \\isodd, \\boolean, \\isundefined, \\lengthtest) and digit-run scanning are carried by the document stream only.')
LEVEL_NOTE = ('Trusted: Lean kernel (axioms propext, Classical.choice, Quot.sound only), the translator harness/extract.py (probes ifthenelse.prec), '
              'the correspondence harness and its generators (depth<=6), CPython. Modelled not verified: expansion of the test argument, atom macros, float tolerance of \\lengthtest.')
TECHNIQUE = 'Lean 4 proof (mutual structural induction on expression trees) + regenerated precedence table + differential correspondence'
TRUSTED = ['atom macros (\\equal, \\isodd, \\boolean, \\isundefined, \\lengthtest) are tied by the doc stream only; the operand reader (signs, blanks, digits) is modelled (readSigned, theorem signed_operand_value) and tied by the num stream']
ASSUMPTIONS = ['\\lengthtest equality uses a float tolerance in the code; generated lengths keep a margin',
               'expression depth sampled up to 6 (theorem covers every depth)']
RULE = ('trees of the Spec grammar generated recursively from the seed (depth<=6 component level, <=4 document level) plus '
        'random/malformed token lists; non-trivial = spec defined (well-formed tree) and the tree contains at least one operator; '
        'distinct = distinct driver request line')
EXHAUSTIVE = {}

logging.disable(logging.CRITICAL)

# ---------------------------------------------------------------- translator

def gen_ifthen():
    from plasTeX.Packages import ifthen
    from plasTeX.Tokenizer import Other
    from plasTeX import number
    it = ifthen.ifthenelse()
    class _lp(ifthen.Command): macroName = '('
    class _rp(ifthen.Command): macroName = ')'
    probes = [('Lt', Other('<')), ('Gt', Other('>')), ('Eq', Other('=')), ('And', ifthen._and()), ('Or', ifthen._or()),
              ('Not', ifthen._not()), ('Lpar', _lp()), ('Rpar', _rp()), ('Num', number(3)), ('Bool', ifthen._true())]
    body = []
    for name, tok in probes:
        v = it.prec(tok)
        if not isinstance(v, int) or v < 0 or v > 1000:
            raise ValueError('prec(%s) = %r' % (name, v))
        body.append('def prec%s : Nat := %d' % (name, v))
    src = (extract.HEADER % ('plasTeX/Packages/ifthen.py (ifthenelse.prec)', 'probed') +
           'namespace PlasVerif.Generated.IfThen\n'
           '/-! operator precedence `ifthenelse.prec` on each token kind of the model -/\n' +
           '\n'.join(body) + '\nend PlasVerif.Generated.IfThen\n')
    return 'PlasVerif/Generated/IfThen.lean', src, 'probed'


GENERATED = [gen_ifthen]

# ---------------------------------------------------------------- generation

def spell_int(rng, v):
    """a TeX <number> denoting v: optional +/- signs, each possibly followed by blanks (written `_`), then the digits"""
    if rng.random() < 0.6:
        return str(v)
    signs = [rng.choice('+-') for _ in range(rng.randint(0, 3))]
    if (signs.count('-') % 2 == 1) != (v < 0):
        signs.insert(rng.randint(0, len(signs)), '-')
    if v == 0 and rng.random() < 0.5:
        signs = [rng.choice('+-') for _ in range(rng.randint(0, 2))]
    return ''.join(c + '_' * (rng.randint(1, 2) if rng.random() < 0.25 else 0) for c in signs) + str(abs(v))


def opval(w):
    """value of an operand word"""
    core = w.lstrip('+-_')
    return (-1) ** w[:len(w) - len(core)].count('-') * int(core)


def gen_atom(rng, depth):
    r = rng.random()
    if depth <= 0 or r < 0.25:
        if rng.random() < 0.4:
            return ['L1'] if rng.random() < 0.5 else ['L0']
        a, b = rng.randint(-3, 12), rng.randint(-3, 12)
        if rng.random() < 0.2:
            b = a
        return ['C', spell_int(rng, a), rng.choice('<>='), spell_int(rng, b)]
    if r < 0.55:
        return ['N'] + gen_atom(rng, depth - 1)
    if r < 0.85:
        return ['P'] + gen_expr(rng, depth - 1)
    return gen_atom(rng, 0)


def gen_expr(rng, depth):
    r = rng.random()
    if depth <= 0 or r < 0.3:
        return ['A'] + gen_atom(rng, depth)
    op = '&' if rng.random() < 0.5 else '|'
    return [op] + gen_expr(rng, depth - 1) + gen_atom(rng, depth - 1)


TOKS = ['T', 'F', '(', ')', 'and', 'or', 'not', '<', '>', '=', 'n1', 'n2', 'n7', 'n-3']


def generate(ctx):
    rng = ctx.rng
    n = 1500 if ctx.tier == 'quick' else 40000
    for i in range(n):
        yield Case('tree', ' '.join(gen_expr(rng, rng.randint(0, 6))), {'kind': 'tokens'})
    for i in range(n // 5):
        yield Case('doc', ' '.join(gen_expr(rng, rng.randint(0, 4))), {'kind': 'doc', 'seed': rng.randrange(1 << 30)})
    for i in range(n // 2):
        k = rng.randint(0, 8)
        yield Case('rpn', ' '.join(rng.choice(TOKS) for _ in range(k)), {'kind': 'tokens'})
    for w in ['3', '+3', '-3', '--3', '+-3', '-+-3', '-_3', '+_3', '-_-__3', '-0', '+_0', '007', '-_012']:
        yield Case('num', w, {'kind': 'num'})
    for i in range(n // 5):
        yield Case('num', spell_int(rng, rng.choice([rng.randint(-20, 20), rng.randint(-100000, 100000)])), {'kind': 'num'})
    for a in range(0, 4):
        for b in range(0, 7):
            yield Case('while', '%d %d 50' % (a, b), {'kind': 'while'})
    # \\whiledo whose test is a full expression: `\\( \\value{w} < b \\) \\and <tree>`; iterations = (b - a if tree true else 0)
    for i in range(n // 10):
        a, b = rng.randint(0, 3), rng.randint(0, 6)
        yield Case('doc', ' '.join(gen_expr(rng, rng.randint(0, 3))), {'kind': 'dwhile', 'seed': rng.randrange(1 << 30), 'a': a, 'b': b})


def corpus():
    return [
        Case('tree', '& A L1 N L0', {'kind': 'tokens'}, 'corpus'),                # D4 witness: true \and \not false
        Case('tree', '& A C 1 < 2 N C 3 < 2', {'kind': 'tokens'}, 'corpus'),
        Case('doc', '& A L1 N L0', {'kind': 'doc', 'seed': 1}, 'corpus'),
        Case('doc', '| A N L1 N N L0', {'kind': 'doc', 'seed': 2}, 'corpus'),
        Case('rpn', 'T and not F', {'kind': 'tokens'}, 'corpus'),
        Case('rpn', ')', {'kind': 'tokens'}, 'corpus'),
        Case('rpn', 'n1 and n2', {'kind': 'tokens'}, 'corpus'),
        Case('num', '-_3', {'kind': 'num'}, 'corpus'),                           # D54: blank between the sign and the digits
        Case('tree', 'A C -_3 < +_2', {'kind': 'tokens'}, 'corpus'),
    ]


def nontrivial(o):
    return o.spec.startswith('ok:') and any(w in o.case.line.split() for w in ('&', '|', 'N', 'P', '3', '4', '5', '6'))


# ---------------------------------------------------------------- implementation side

_env = {}


def _tex():
    if 'tex' not in _env:
        from plasTeX.TeX import TeX
        from plasTeX import TeXDocument
        from plasTeX.Packages import ifthen
        doc = TeXDocument()
        _env['doc'], _env['tex'], _env['it'], _env['mod'] = doc, TeX(doc), ifthen.ifthenelse(), ifthen
    return _env['doc'], _env['tex'], _env['it'], _env['mod']


def real_tokens(words, spelled=None):
    """`spelled`: the operand words of the request in left-to-right order (the model prints operand values; the real
    evaluator gets them as they were spelled)"""
    from plasTeX.Tokenizer import Other, Space
    doc, tex, it, m = _tex()
    out, prev_num = [], False
    spelled = list(spelled or [])
    for w in words:
        isnum = w.startswith('n') and w not in ('not',)
        if isnum:
            if prev_num:
                out.append(Space())
            sp = spelled.pop(0) if spelled else w[1:]
            if spelled is not None and opval(sp) != int(w[1:]):
                raise ValueError('operand order mismatch %s vs %s' % (sp, w))
            out.extend(Space() if c == '_' else Other(c) for c in sp)
        elif w == 'T': out.append(m._true())
        elif w == 'F': out.append(m._false())
        elif w == 'and': out.append(m._and())
        elif w == 'or': out.append(m._or())
        elif w == 'not': out.append(m._not())
        elif w in ('(', ')'): out.append(doc.createElement(w))
        elif w in '<>=': out.append(Other(w))
        else: raise ValueError(w)
        prev_num = isnum
    return out


def canon_exc(e):
    n = type(e).__name__
    return 'err:' + n if n in ('IndexError', 'ValueError') else 'err:other:' + n


def atom_tex(words, i, rng):
    """spell the atom starting at words[i] as LaTeX; returns (text, next index)"""
    w = words[i]
    if w in ('L1', 'L0'):
        t = (w == 'L1')
        k = rng.randrange(5)
        if k == 0: s = rng.choice(['\\equal{ab}{ab}', '\\equal{}{}', '\\equal{\\emptymac}{}', '\\equal{0}{0}', '\\equal{\\numA}{5}']) if t else rng.choice(['\\equal{ab}{ba}', '\\equal{}{a}', '\\equal{a}{\\emptymac}', '\\equal{0}{}'])
        elif k == 1: s = '\\isodd{%s%d}' % (rng.choice(['', '', '+', '-', '--', '+ ']), 2 * rng.randint(0, 9) + (1 if t else 0))
        elif k == 2: s = '\\boolean{flagT}' if t else '\\boolean{flagF}'
        elif k == 3: s = '\\isundefined{\\nosuchmacroxyz}' if t else '\\isundefined{\\relax}'
        else: s = rng.choice(['\\lengthtest{1cm<2cm}', '\\lengthtest{1cm<+2cm}', '\\lengthtest{-1cm<2mm}', '\\lengthtest{+5mm<1cm}',
                              # the same length written in two units (exact in TeX's unit table) is equal
                              '\\lengthtest{254cm=100in}', '\\lengthtest{2540mm=100in}', '\\lengthtest{7227pt=100in}', '\\lengthtest{1pc=12pt}',
                              '\\lengthtest{1in=2.54cm}', '\\lengthtest{72bp=1in}', '\\lengthtest{1cm=10mm}',
                              # length registers as operands (read, never assigned, also inside a \\whiledo test)
                              '\\lengthtest{\\mylen>1cm}', '\\lengthtest{0.5\\mylen<2cm}', '\\lengthtest{1cm<\\mylen}', '\\lengthtest{\\mylen=2cm}']) if t else rng.choice(
                             ['\\lengthtest{3pt>1in}', '\\lengthtest{+3pt>1in}', '\\lengthtest{3pt<-1in}', '\\lengthtest{1cm=1.0001cm}', '\\lengthtest{254cm>100in}', '\\lengthtest{1in<72.27pt}', '\\lengthtest{\\mylen<1cm}', '\\lengthtest{3\\mylen<\\mylen}'])
        return s, i + 1
    if w == 'C':
        a, r, b = words[i + 1:i + 4]
        def core(w):
            c = w.lstrip('+-_')
            pre = w[:len(w) - len(c)].replace('_', ' ')
            k = rng.randrange(4)
            if k == 0 and int(c) <= 12: c = '\\value{cnt%s}' % int(c)
            elif k == 2 and 1 <= int(c) <= 3 and pre.count('-') % 2 == 1 and rng.random() < 0.7:
                # a counter that holds the negative value itself (its digits come from Counter.arabic)
                pre, c = pre.replace('-', '', 1), '\\value{cntm%s}' % int(c)
            elif k == 1 and c == '5': c = '\\numA'
            return pre + c
        sp = ' ' if rng.random() < 0.5 else ''
        return '%s%s%s%s%s' % (core(a), sp, r, sp, core(b) if rng.random() < 0.5 else b.replace('_', ' ')), i + 4
    if w == 'N':
        s, j = atom_tex(words, i + 1, rng)
        return '\\not ' + s, j
    if w == 'P':
        s, j = expr_tex(words, i + 1, rng)
        return '\\(' + s + '\\)', j
    raise ValueError(w)


def expr_tex(words, i, rng):
    w = words[i]
    if w == 'A':
        return atom_tex(words, i + 1, rng)
    s1, j = expr_tex(words, i + 1, rng)
    s2, k = atom_tex(words, j, rng)
    op = {'&': rng.choice(['\\and', '\\AND']), '|': rng.choice(['\\or', '\\OR'])}[w]
    return '%s %s %s' % (s1, op, s2), k


PREAMBLE = ('\\newdimen\\mylen \\mylen=2cm \\newcounter{cntm1}\\setcounter{cntm1}{-1}\\newcounter{cntm2}\\setcounter{cntm2}{-2}\\newcounter{cntm3}\\setcounter{cntm3}{-3}\\def\\emptymac{}\\newboolean{flagT}\\setboolean{flagT}{true}\\newboolean{flagF}\\def\\numA{5}' +
            ''.join('\\newcounter{cnt%d}\\setcounter{cnt%d}{%d}' % (i, i, i) for i in range(13)))


def parse_doc(body):
    from plasTeX.TeX import TeX
    from plasTeX import TeXDocument
    doc = TeXDocument()
    tex = TeX(doc)
    tex.input('\\documentclass{article}\\usepackage{ifthen}\\begin{document}' + PREAMBLE + body + '\\end{document}')
    tex.parse()
    return doc.getElementsByTagName('document')[0].textContent


def impl(case, aux):
    import random
    kind = case.meta['kind']
    if kind == 'tokens':
        words = aux[0].split() if case.stream == 'tree' else case.line.split()
        doc, tex, it, m = _tex()
        spelled = None
        if case.stream == 'tree':
            lw = case.line.split()
            spelled = [x for i, x in enumerate(lw) if (i >= 1 and lw[i - 1] == 'C') or (i >= 3 and lw[i - 3] == 'C')]
        toks = real_tokens(words, spelled)
        try:
            r = it.evaluate(tex, toks)
            return 'ok:true' if r.state else 'ok:false'
        except Exception as e:
            return canon_exc(e)
    if kind == 'num':
        # the value `evaluate` reads for the operand spelled by the word, observed at its call of readInternalType
        from plasTeX.Tokenizer import Other, Space
        doc, tex, it, m = _tex()
        seen = []
        orig = tex.readInternalType
        def spy(toks, fn):
            v = orig(toks, fn)
            seen.append(int(v))
            return v
        tex.readInternalType = spy
        try:
            it.evaluate(tex, [Space() if c == '_' else Other(c) for c in case.line.strip()] + [Other('<'), Other('1')])
        except Exception as e:
            return canon_exc(e)
        finally:
            del tex.readInternalType
        return 'ok:%d' % seen[0] if len(seen) == 2 else 'split:' + ','.join(map(str, seen))
    if kind == 'doc':
        rng = random.Random(case.meta['seed'])
        s, _ = expr_tex(case.line.split(), 0, rng)
        case.meta['tex'] = s
        try:
            # re-declaring an existing boolean with \\provideboolean leaves its value alone
            pre = rng.choice(['', '', '\\provideboolean{flagT}', '\\provideboolean{flagF}\\provideboolean{flagT}', '\\provideboolean{flagNew}'])
            case.meta['tex'] = pre + '\\ifthenelse{%s}' % s
            txt = parse_doc(pre + '\\ifthenelse{%s}{BRANCHT}{BRANCHF}' % s)
        except Exception as e:
            return canon_exc(e)
        t, f = txt.count('BRANCHT'), txt.count('BRANCHF')
        if (t, f) == (1, 0): return 'ok:true'
        if (t, f) == (0, 1): return 'ok:false'
        return 'bad-branches:%d:%d' % (t, f)
    if kind == 'dwhile':
        rng = random.Random(case.meta['seed'])
        s, _ = expr_tex(case.line.split(), 0, rng)
        a, b = case.meta['a'], case.meta['b']
        guard = rng.choice(['\\( \\value{w}<%d \\) \\and \\( %s \\)', '\\value{w}<%d \\and \\( %s \\)', '\\not \\( \\value{w}>%d \\or \\value{w}=%d \\) \\and \\( %s \\)'])
        test = guard % ((b, s) if guard.count('%d') == 1 else (b, b, s))
        case.meta['tex'] = test
        try:
            # the body may itself use \\ifthenelse / a nested \\whiledo (they toggle the same math-disabling switch)
            body = rng.choice(['\\stepcounter{w}X', '\\stepcounter{w}\\ifthenelse{\\isodd{\\value{w}} \\or \\( 1<2 \\)}{X}{Y}',
                               '\\stepcounter{w}X\\setcounter{v}{0}\\whiledo{\\( \\value{v}<2 \\)}{\\stepcounter{v}}',
                               '\\stepcounter{w}X\\provideboolean{flagT}\\provideboolean{flagF}'])
            txt = parse_doc('\\newcounter{w}\\newcounter{v}\\setcounter{w}{%d}\\whiledo{%s}{%s}DONE' % (a, test, body))
        except Exception as e:
            return canon_exc(e)
        return 'iters:%d:%d' % (txt.count('X'), txt.count('DONE'))
    if kind == 'while':
        a, b, _ = case.line.split()
        try:
            txt = parse_doc('\\newcounter{w}\\setcounter{w}{%s}\\whiledo{\\value{w}<%s}{\\stepcounter{w}X}' % (a, b))
        except Exception as e:
            return canon_exc(e)
        doc_final = txt.count('X')
        return 'ok:%d:%d' % (max(int(a), int(b)), doc_final)
    raise ValueError(kind)


def judge(o):
    if o.case.meta.get('kind') == 'dwhile':
        a, b = o.case.meta['a'], o.case.meta['b']
        exp = 'iters:%d:1' % (max(0, b - a) if o.spec == 'ok:true' else 0)
        o.corr_ok = o.prop_ok = (o.impl == exp and o.model == o.spec)
        o.spec = exp
    elif o.case.stream == 'doc':
        # the document spelling goes through atom macros; the model is compared on the truth value only
        o.corr_ok = (o.impl == o.model)
        o.prop_ok = (o.impl == o.spec)
    elif o.case.stream == 'while':
        # final counter value is not observed through textContent: compare the iteration count
        o.corr_ok = o.prop_ok = (o.impl.split(':')[-1] == o.model.split(':')[-1] == o.spec.split(':')[-1])
    else:
        o.corr_ok = (o.impl == o.model)
        o.prop_ok = (o.spec == '-' or o.impl == o.spec)
        if o.case.stream == 'rpn':
            o.in_domain = False     # arbitrary token lists: the property speaks about well-formed expressions only


def shrink(ctx, o, evaluate):
    """smaller tree with the same failure: try every sub-tree"""
    if o.case.stream not in ('tree', 'doc'):
        return o
    words = o.case.line.split()
    best = o
    improved = True
    while improved:
        improved = False
        words = best.case.line.split()
        cands = []
        for i, w in enumerate(words):
            if w in ('A', '&', '|'):
                # sub-expression starting at i
                j = _skip_expr(words, i)
                if (i, j) != (0, len(words)):
                    cands.append(words[i:j])
            if w in ('N', 'P', 'L1', 'L0', 'C') and i > 0:
                j = _skip_atom(words, i)
                cands.append(['A'] + words[i:j])
        cands.sort(key=len)
        cs = [Case(o.case.stream, ' '.join(c), dict(o.case.meta), 'shrink') for c in cands if len(c) < len(words)]
        for r in evaluate(cs):
            if not r.prop_ok:
                best = r
                improved = True
                break
    return best


def _skip_atom(w, i):
    if w[i] in ('L1', 'L0'): return i + 1
    if w[i] == 'C': return i + 4
    if w[i] == 'N': return _skip_atom(w, i + 1)
    if w[i] == 'P': return _skip_expr(w, i + 1)
    raise ValueError(w[i])


def _skip_expr(w, i):
    if w[i] == 'A': return _skip_atom(w, i + 1)
    return _skip_atom(w, _skip_expr(w, i + 1))


def search(ctx, evaluate, corr_bad):
    """proof/tie broken but no spec mismatch in the main batch: a larger seeded batch against the Spec oracle"""
    import random
    rng = random.Random(ctx.seed + 7919)
    cases = [Case('tree', ' '.join(gen_expr(rng, rng.randint(0, 7))), {'kind': 'tokens'}, 'search') for _ in range(20000)]
    cases += [Case('doc', ' '.join(gen_expr(rng, rng.randint(0, 4))), {'kind': 'doc', 'seed': rng.randrange(1 << 30)}, 'search')
              for _ in range(1500)]
    bad = [o for o in evaluate(cases) if not o.prop_ok]
    if bad:
        o = shrink(ctx, bad[0], evaluate)
        return Violation('implementation differs from the property oracle (found by search)',
                         {'kind': 'failing-input', 'outcome': o.to_json()})
    return None
