"""Shared machinery of the /verif checks (see DESIGN.md section 1.3 and 4).

A run of `./check Cxx`:
  1 regenerate lean/PlasVerif/Generated/*.lean from /repo (translator, written only if changed)
  2 lake build of the property's theorem module and of the driver executable
  3 audit: forbidden words in the Lean sources, `#print axioms` of every property theorem
  4 correspondence: corpus first, then seeded generation; implementation vs Model (driver) vs Spec
  5 when 2, 3 or 4 broke: failing-input search (implementation against the Spec oracle)
  6 evidence/Cxx.json; exit 0, or exit 1 with `VIOLATION property=Cxx replay=<path>`
Exit 2 = the harness itself failed (timeout, crash): not a verdict.
"""
import os, sys, re, json, time, random, subprocess, hashlib, fcntl, importlib, traceback, argparse, shutil, tempfile

HARNESS = os.path.dirname(os.path.abspath(__file__))
VERIF = os.path.dirname(HARNESS)
LEAN = os.path.join(VERIF, 'lean')
REPO = os.environ.get('VERIF_REPO', '/repo')
DRIVER = os.path.join(LEAN, '.lake', 'build', 'bin', 'driver')
ALLOWED_AXIOMS = {'propext', 'Classical.choice', 'Quot.sound'}
GUARD = 'PLASTEX_VERIF'

if REPO not in sys.path:
    sys.path.insert(0, REPO)
os.environ.setdefault(GUARD, '1')


class Case:
    """One correspondence case: `line` goes to the Lean driver (after the property id),
    `meta` is whatever the implementation runner needs (JSON-serialisable)."""
    __slots__ = ('stream', 'line', 'meta', 'origin')

    def __init__(self, stream, line, meta=None, origin='gen'):
        self.stream, self.line, self.meta, self.origin = stream, line, meta, origin

    def key(self):
        return self.stream + ' ' + self.line

    def to_json(self):
        return {'stream': self.stream, 'line': self.line, 'meta': self.meta}

    @staticmethod
    def from_json(d, origin='corpus'):
        return Case(d['stream'], d['line'], d.get('meta'), origin)


class Outcome:
    __slots__ = ('case', 'impl', 'model', 'spec', 'aux', 'corr_ok', 'prop_ok', 'note', 'in_domain')

    def __init__(self, case, impl, model, spec, aux):
        self.case, self.impl, self.model, self.spec, self.aux = case, impl, model, spec, aux
        self.corr_ok = self.prop_ok = True
        self.note = ''
        self.in_domain = True   # False: input outside the property's quantifier (model mismatch there is recorded, not alarmed)

    def to_json(self):
        return {'case': self.case.to_json(), 'implementation': self.impl, 'model': self.model,
                'spec_expected': self.spec, 'note': self.note}


class Violation:
    """A concrete input on which the *property statement* fails on the real code."""
    def __init__(self, what, replay, shrunk_from=None):
        self.what, self.replay, self.shrunk_from = what, replay, shrunk_from


class CaseTimeout(BaseException):
    pass


class time_limit:
    """per-case wall-clock limit for the implementation runner (the real code may loop on adversarial input)"""
    def __init__(self, seconds):
        self.seconds = seconds

    def _raise(self, *a):
        raise CaseTimeout()

    def __enter__(self):
        import signal
        self.old = signal.signal(signal.SIGALRM, self._raise)
        signal.alarm(self.seconds)

    def __exit__(self, *a):
        import signal
        signal.alarm(0)
        signal.signal(signal.SIGALRM, self.old)
        return False


# ----------------------------------------------------------------------------- lean side

def _lock():
    os.makedirs(os.path.join(LEAN, '.lake'), exist_ok=True)
    f = open(os.path.join(LEAN, '.lake', 'verif.lock'), 'w')
    fcntl.flock(f, fcntl.LOCK_EX)
    return f


def sh(cmd, cwd=None, timeout=3600, inp=None):
    p = subprocess.run(cmd, cwd=cwd, stdout=subprocess.PIPE, stderr=subprocess.STDOUT, input=inp,
                       timeout=timeout, text=True)
    return p.returncode, p.stdout


def lake_build(targets):
    """Build the given lake targets (serialised across concurrent checks)."""
    lk = _lock()
    try:
        rc, out = sh(['lake', 'build'] + list(targets), cwd=LEAN)
    finally:
        lk.close()
    return rc, out


def write_if_changed(path, content):
    try:
        if open(path).read() == content:
            return False
    except FileNotFoundError:
        pass
    os.makedirs(os.path.dirname(path), exist_ok=True)
    tmp = path + '.tmp%d' % os.getpid()
    open(tmp, 'w').write(content)
    os.replace(tmp, path)
    return True


def strip_lean_comments(src):
    out, i, depth, n = [], 0, 0, len(src)
    while i < n:
        if src.startswith('/-', i):
            depth += 1; i += 2; continue
        if depth and src.startswith('-/', i):
            depth -= 1; i += 2; continue
        if depth:
            if src[i] == '\n':
                out.append('\n')
            i += 1; continue
        if src.startswith('--', i):
            while i < n and src[i] != '\n':
                i += 1
            continue
        if src[i] == '"':
            j = i + 1
            while j < n and src[j] != '"':
                j += 2 if src[j] == '\\' else 1
            out.append('""'); i = j + 1; continue
        out.append(src[i]); i += 1
    return ''.join(out)


FORBIDDEN = re.compile(r'\b(sorry|admit|native_decide|bv_decide|implemented_by|unsafe|extern)\b|^\s*axiom\s|maxHeartbeats\s+0\b',
                       re.M)


def lean_sources():
    res = [os.path.join(LEAN, 'Main.lean'), os.path.join(LEAN, 'PlasVerif.lean')]
    for root, _, files in os.walk(os.path.join(LEAN, 'PlasVerif')):
        for f in files:
            if f.endswith('.lean'):
                res.append(os.path.join(root, f))
    return sorted(res)


def audit_sources():
    """Forbidden constructs anywhere in the Lean sources (comments and strings stripped)."""
    bad = []
    for p in lean_sources():
        code = strip_lean_comments(open(p).read())
        for m in FORBIDDEN.finditer(code):
            bad.append('%s: %s' % (os.path.relpath(p, LEAN), m.group(0).strip()))
        if os.path.basename(p) != 'Main.lean' and re.search(r'\bpartial\s+def\b', code):
            bad.append('%s: partial def' % os.path.relpath(p, LEAN))
    return bad


def property_theorems(pid):
    """(theorem names, number of `example`s) declared in Properties/<pid>.lean."""
    path = os.path.join(LEAN, 'PlasVerif', 'Properties', pid + '.lean')
    code = strip_lean_comments(open(path).read())
    ns = 'PlasVerif.Properties.' + pid
    names = [ns + '.' + m.group(1) for m in re.finditer(r'^\s*(?:@\[[^\]]*\]\s*)?theorem\s+([^\s:({\[]+)', code, re.M)]
    examples = len(re.findall(r'^\s*example\b', code, re.M))
    return names, examples


def audit_axioms(pid, names):
    """`#print axioms` for every property theorem; returns {name: [axioms]} or raises."""
    d = os.path.join(LEAN, '.lake', 'audit')
    os.makedirs(d, exist_ok=True)
    f = os.path.join(d, '%s_%d.lean' % (pid, os.getpid()))
    with open(f, 'w') as fh:
        fh.write('import PlasVerif.Properties.%s\n' % pid)
        for n in names:
            fh.write('#print axioms %s\n' % n)
    try:
        rc, out = sh(['lake', 'env', 'lean', f], cwd=LEAN)
    finally:
        try:
            os.unlink(f)
        except OSError:
            pass
    res = {}
    flat = re.sub(r'\s+', ' ', out)
    for m in re.finditer(r"'([^']+)' depends on axioms: \[([^\]]*)\]", flat):
        res[m.group(1)] = [a.strip() for a in m.group(2).split(',') if a.strip()]
    for m in re.finditer(r"'([^']+)' does not depend on any axioms", flat):
        res[m.group(1)] = []
    return rc, out, res


def run_driver(pid, cases):
    """Feed the case lines to the compiled Lean driver; returns one list of tab-separated fields per case."""
    if not cases:
        return []
    inp = ''.join('%s %s %s\n' % (pid, c.stream, c.line) for c in cases)
    p = subprocess.run([DRIVER], input=inp, stdout=subprocess.PIPE, stderr=subprocess.PIPE, text=True, timeout=3600)
    if p.returncode != 0:
        raise RuntimeError('driver failed rc=%d: %s' % (p.returncode, p.stderr[:2000]))
    lines = p.stdout.split('\n')
    if lines and lines[-1] == '':
        lines.pop()
    if len(lines) != len(cases):
        raise RuntimeError('driver answered %d lines for %d requests' % (len(lines), len(cases)))
    return [l.split('\t') for l in lines]


# ----------------------------------------------------------------------------- known findings

def known_findings(pid):
    """Parse /verif/known_findings.txt.  Lines:
         known: property=<id> finding=<name> witness=<path under /verif> :: <what fails>
         fixed: property=<id> <commit> <what failed>
       Only `known:` lines suppress anything, and only the exact witness they name."""
    res = []
    path = os.path.join(VERIF, 'known_findings.txt')
    if not os.path.exists(path):
        return res
    for line in open(path):
        line = line.strip()
        m = re.match(r'known:\s+property=(\S+)\s+finding=(\S+)\s+witness=(\S+)\s+::\s*(.*)', line)
        if m and m.group(1) == pid:
            w = json.load(open(os.path.join(VERIF, m.group(3))))
            res.append({'finding': m.group(2), 'what': m.group(4), 'witness': w, 'path': m.group(3)})
    return res


# ----------------------------------------------------------------------------- the run

class Ctx:
    def __init__(self, pid, tier, seed):
        self.pid, self.tier, self.seed = pid, tier, seed
        self.rng = random.Random((seed * 1000003) ^ int(hashlib.sha256(pid.encode()).hexdigest()[:8], 16))
        self.t0 = time.time()
        self.log = []
        self.dist = {}

    def count(self, key, n=1):
        self.dist[key] = self.dist.get(key, 0) + n

    def say(self, *a):
        msg = ' '.join(str(x) for x in a)
        self.log.append(msg)
        print('[%s %6.1fs] %s' % (self.pid, time.time() - self.t0, msg), flush=True)


def default_judge(o):
    o.corr_ok = (o.impl == o.model)
    o.prop_ok = (o.spec == '-' or o.impl == o.spec)


def write_replay(pid, seed, payload):
    d = os.path.join(VERIF, 'replays')
    os.makedirs(d, exist_ok=True)
    h = hashlib.sha256(json.dumps(payload, sort_keys=True, default=str).encode()).hexdigest()[:10]
    path = os.path.join(d, '%s-seed%d-%s.json' % (pid, seed, h))
    json.dump(payload, open(path, 'w'), indent=1, sort_keys=True, default=str)
    return path


def evaluate_cases(P, ctx, cases):
    """driver + implementation on each case; returns outcomes."""
    fields = run_driver(P.ID, cases)
    outs = []
    judge = getattr(P, 'judge', default_judge)
    timeouts_bad = 0
    for c, f in zip(cases, fields):
        if timeouts_bad >= 10:
            # ten inputs already ran into the per-case time limit and fail the property: that settles the verdict; running
            # the remaining cases (each up to CASE_TIMEOUT) would only make the check take hours
            ctx.say('evaluation stopped after 10 timed-out failing cases; %d cases not run' % (len(cases) - len(outs)))
            break
        model = f[0] if f else ''
        spec = f[1] if len(f) > 1 else '-'
        aux = f[2:]
        try:
            with time_limit(getattr(P, 'CASE_TIMEOUT', 20)):
                impl = P.impl(c, aux)
        except CaseTimeout:
            # the limit is wall-clock: on a loaded machine a healthy case can exceed it.  Before 'err:timeout' becomes an
            # observation the case is run once more with ten times the limit (a real hang still ends, just later).
            ctx.count('case-timeouts-retried')
            try:
                with time_limit(10 * getattr(P, 'CASE_TIMEOUT', 20)):
                    impl = P.impl(c, aux)
            except CaseTimeout:
                impl = 'err:timeout'
        except Exception as e:  # harness bug, not an implementation exception (those are canonicalised by P.impl)
            raise RuntimeError('impl runner crashed on %s: %r' % (c.key(), e)) from e
        o = Outcome(c, impl, model, spec, aux)
        judge(o)
        # a spec answer starting with '-' means "outside the property's domain" (BUILDING.md): a model/implementation
        # difference there is recorded as a note, never raised as an alarm
        if isinstance(o.spec, str) and o.spec.startswith('-') and o.prop_ok:
            o.in_domain = False
        if impl == 'err:timeout' and not o.prop_ok:
            timeouts_bad += 1
        outs.append(o)
    return outs


def run_check(pid, tier, seed, replay=None):
    P = importlib.import_module('props.' + pid.lower())
    ctx = Ctx(pid, tier, seed)
    if replay:
        return do_replay(P, ctx, replay)

    problems = []          # things that broke the proof or the tie (not violations by themselves)
    # 1 translator
    from extract import regenerate
    gen_status = regenerate(ctx, getattr(P, 'GENERATED', []))  # list of callables -> (lean path, source, mode)
    for name, st in gen_status.items():
        if st['mode'] == 'failed':
            problems.append('translator: could not regenerate %s (%s); last committed table kept' % (name, st.get('error')))
    # 2 build
    rc, out = lake_build([P.LEAN_MODULE])
    proofs_built = (rc == 0)
    if rc != 0:
        errs = [l for l in out.split('\n') if l.startswith('error:')][:8]
        problems.append('lake build %s failed: %s' % (P.LEAN_MODULE, ' | '.join(errs)))
        ctx.say('PROOF BUILD FAILED', *errs[:3])
    rc2, out2 = lake_build(['driver'])
    if rc2 != 0:
        ctx.say(out2[-3000:])
        print('HARNESS-ERROR: the Lean driver does not build', flush=True)
        return 2
    # 3 audit
    names, n_examples = property_theorems(pid)
    bad_words = audit_sources()
    if bad_words:
        problems.append('audit: forbidden constructs: ' + '; '.join(bad_words))
    discharged = 0
    axioms_seen = {}
    if proofs_built:
        rc3, out3, axioms_seen = audit_axioms(pid, names)
        if rc3 != 0:
            problems.append('audit: #print axioms failed: ' + out3[-500:])
        for n in names:
            ax = axioms_seen.get(n)
            if ax is None:
                problems.append('audit: no axiom report for ' + n)
            elif not set(ax) <= ALLOWED_AXIOMS:
                problems.append('audit: %s depends on %s' % (n, ax))
            else:
                discharged += 1
        if not bad_words and rc3 == 0:
            discharged += n_examples
    if tier == 'thorough' and proofs_built:
        rc4, out4 = sh(['lake', 'env', 'leanchecker', P.LEAN_MODULE], cwd=LEAN)
        if rc4 != 0:
            problems.append('leanchecker rejected %s: %s' % (P.LEAN_MODULE, out4[-500:]))
    obligations = len(names) + n_examples
    ctx.say('proofs: %d/%d obligations discharged; axioms used: %s' % (
        discharged, obligations, sorted({a for v in axioms_seen.values() for a in v})))

    # 4 correspondence
    known = known_findings(pid)
    known_cases = [Case.from_json(k['witness']['case'], 'known') for k in known if 'case' in k['witness']]
    known_keys = {c.key() for c in known_cases}
    corpus = list(P.corpus()) if hasattr(P, 'corpus') else []
    gen = list(P.generate(ctx))
    cases = [c for c in corpus + gen if c.key() not in known_keys]
    # the generated inputs must be a function of the seed alone (so that a replay by seed is exact): their digest goes into
    # the evidence and tools/determinism.sh compares it across interpreter hash seeds
    _dg = hashlib.sha256()
    for c in cases:
        _dg.update(c.key().encode('utf-8', 'replace')); _dg.update(b'\n')
    ctx.cases_digest = _dg.hexdigest()[:16]
    ctx.say('generated %d cases, digest %s' % (len(cases), ctx.cases_digest))
    outs = evaluate_cases(P, ctx, cases)
    corr_bad = [o for o in outs if not o.corr_ok and o.in_domain]
    ood_bad = [o for o in outs if not o.corr_ok and not o.in_domain]
    if ood_bad:
        print('NOTE: %d model/implementation differences on inputs outside the property\'s domain (recorded in evidence, not a verdict): first %s' % (len(ood_bad), ood_bad[0].case.key()[:120]), flush=True)
    prop_bad = [o for o in outs if not o.prop_ok]
    nontriv = getattr(P, 'nontrivial', lambda o: o.spec not in ('-', '') and not o.spec.startswith('err'))
    distinct = {o.case.key() for o in outs if nontriv(o)}
    for o in outs:
        ctx.count('stream:' + o.case.stream)
        ctx.count('impl:' + (o.impl.split(':')[0] if ':' in o.impl else o.impl)[:24])
    ctx.say('correspondence: %d cases (%d corpus), %d model mismatches, %d spec mismatches' % (
        len(outs), len(corpus), len(corr_bad), len(prop_bad)))

    # document-level / extra oracle checks carried by the harness only
    extra_viol = []
    extra_stats = {}
    if hasattr(P, 'extra_checks'):
        extra_viol, extra_stats = P.extra_checks(ctx)
        known_extra = {json.dumps(k['witness'].get('extra'), sort_keys=True) for k in known if 'extra' in k['witness']}
        extra_viol = [v for v in extra_viol if json.dumps(v.replay.get('extra'), sort_keys=True) not in known_extra]

    # known findings: replay each witness on the real code
    known_lines = []
    for k in known:
        still = replay_known(P, ctx, k)
        if still:
            known_lines.append('KNOWN-FINDING: property=%s %s: %s' % (pid, k['finding'], k['what']))
    for l in known_lines:
        print(l, flush=True)

    # 5 verdict
    violation = None
    if prop_bad:
        o = prop_bad[0]
        if hasattr(P, 'shrink'):
            o = P.shrink(ctx, o, lambda cs: evaluate_cases(P, ctx, cs)) or o
        violation = Violation('implementation differs from the property oracle', {
            'kind': 'failing-input', 'outcome': o.to_json(), 'others': [x.to_json() for x in prop_bad[1:6]]})
    elif extra_viol:
        violation = extra_viol[0]
    elif corr_bad or problems:
        # proof or tie broken: search for a concrete failing input with the Spec oracle
        found = None
        if hasattr(P, 'search'):
            found = P.search(ctx, lambda cs: evaluate_cases(P, ctx, cs), corr_bad)
        if found is not None:
            violation = found
        else:
            violation = Violation('proof or correspondence no longer checks', {
                'kind': 'no-failing-input-found',
                'broken': problems + (['correspondence stream %s: implementation and model differ' % corr_bad[0].case.stream]
                                      if corr_bad else []),
                'first_disagreement': corr_bad[0].to_json() if corr_bad else None,
                'theorems': names})

    # 6 evidence
    wall = time.time() - ctx.t0
    samples = [o.to_json() for o in outs[:3]] + [o.to_json() for o in outs[len(corpus):len(corpus) + 3]]
    cov = {
        'obligations': obligations, 'discharged': discharged if not problems or discharged < obligations else discharged,
        'checker_cmd': 'cd lean && lake build %s && lake env lean <#print axioms of %d theorems>%s' % (
            P.LEAN_MODULE, len(names), ' && lake env leanchecker ' + P.LEAN_MODULE if tier == 'thorough' else ''),
        'trusted_base': ['Lean 4.33.0 kernel', 'axioms: ' + ', '.join(sorted({a for v in axioms_seen.values() for a in v}) or ['none']),
                         'harness/extract.py (translator)', 'harness correspondence check (differential, seeded)',
                         'CPython 3.12'] + list(getattr(P, 'TRUSTED', [])),
        'theorems': {n: axioms_seen.get(n) for n in names},
        'examples_nonvacuity': n_examples,
        'generated_tables': gen_status,
        'evaluations': len(outs) + extra_stats.get('evaluations', 0),
        'distinct_nontrivial': len(distinct) + extra_stats.get('distinct_nontrivial', 0),
        'rule': getattr(P, 'RULE', ''),
        'samples': samples[:6] + extra_stats.get('samples', [])[:4],
        'distribution': dict(sorted(ctx.dist.items())), 'cases_digest': getattr(ctx, 'cases_digest', None),
        'model_mismatches': len(corr_bad), 'spec_mismatches': len(prop_bad),
        'out_of_domain_model_mismatches': [o.to_json() for o in ood_bad[:3]], 'out_of_domain_model_mismatch_count': len(ood_bad),
        'known_findings_reproduced': known_lines,
        'problems': problems,
        'exhaustive': bool(getattr(P, 'EXHAUSTIVE', {}).get(tier)),
        'exhaustive_scope': getattr(P, 'EXHAUSTIVE', {}).get(tier, ''),
    }
    if extra_stats:
        cov['document_level'] = {k: v for k, v in extra_stats.items() if k != 'samples'}
    ev = {'property_id': pid, 'tier': tier, 'seed': seed, 'level': 'proof', 'coverage': cov,
          'assumptions': list(getattr(P, 'ASSUMPTIONS', [])), 'wall_s': round(wall, 2),
          'violations': 1 if violation else 0}
    os.makedirs(os.path.join(VERIF, 'evidence'), exist_ok=True)
    json.dump(ev, open(os.path.join(VERIF, 'evidence', pid + '.json'), 'w'), indent=1, default=str)

    if violation:
        path = write_replay(pid, seed, dict(violation.replay, property=pid, what=violation.what, tier=tier, seed=seed,
                                            replay_cmd='./check %s --replay <this file>' % pid))
        tail = ' no-failing-input-found' if violation.replay.get('kind') == 'no-failing-input-found' else ''
        print('VIOLATION property=%s replay=%s%s' % (pid, path, tail), flush=True)
        return 1
    ctx.say('OK (%.1fs)' % wall)
    return 0


def replay_known(P, ctx, k):
    """True when the listed finding still reproduces on the real code."""
    w = k['witness']
    if 'case' in w:
        c = Case.from_json(w['case'], 'known')
        o = evaluate_cases(P, ctx, [c])[0]
        return not o.prop_ok
    if 'extra' in w and hasattr(P, 'replay_extra'):
        return P.replay_extra(ctx, w['extra'])
    return False


def do_replay(P, ctx, path):
    d = json.load(open(path))
    if d.get('kind') == 'failing-input' and 'outcome' in d:
        c = Case.from_json(d['outcome']['case'], 'replay')
        o = evaluate_cases(P, ctx, [c])[0]
        print(json.dumps(o.to_json(), indent=1))
        if not o.prop_ok:
            print('VIOLATION property=%s replay=%s' % (P.ID, path))
            return 1
        print('replay: property holds on this input now')
        return 0
    if 'extra' in d and hasattr(P, 'replay_extra'):
        if P.replay_extra(ctx, d['extra']):
            print('VIOLATION property=%s replay=%s' % (P.ID, path))
            return 1
        print('replay: property holds on this input now')
        return 0
    print('replay file names a broken proof/correspondence, no concrete input: re-run ./check %s' % P.ID)
    return run_check(P.ID, ctx.tier, ctx.seed)


def main(argv=None):
    ap = argparse.ArgumentParser()
    ap.add_argument('property')
    ap.add_argument('--tier', default=os.environ.get('VERIF_TIER') or 'quick', choices=['quick', 'thorough'])
    ap.add_argument('--replay')
    a = ap.parse_args(argv)
    try:
        seed = int(os.environ.get('VERIF_SEED', '0') or 0)
    except ValueError:
        seed = 0
    try:
        return run_check(a.property.upper(), a.tier, seed, a.replay)
    except Exception:
        traceback.print_exc()
        print('HARNESS-ERROR: check crashed (exit 2, not a verdict)', flush=True)
        return 2
