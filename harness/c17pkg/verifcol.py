"""A small third-party style package used by the C17 check: it defines column types through the
public API `ColumnType.new`, the way a package such as tabularx/dcolumn support would."""
from plasTeX import Command
from plasTeX.Base.LaTeX.Arrays import ColumnType


class verifnewcol(Command):
    args = 'name:str'

    def invoke(self, tex):
        a = self.parse(tex)
        ColumnType.new(str(a['name']), {'text-align': 'center'})
