#!/bin/bash
# developer tool: run every registered quick check once; prints one line per property
cd "$(dirname "$0")/.."
for p in $(python3 -c "import json; print(' '.join(c['property_id'] for c in json.load(open('MANIFEST.json'))['checks']))"); do
  s=$(date +%s); out=$(./check $p --tier ${1:-quick} 2>&1); rc=$?; e=$(date +%s)
  echo "$p rc=$rc $((e-s))s $(echo "$out" | grep -E "VIOLATION|HARNESS" | head -1)"
done
