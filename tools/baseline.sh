#!/bin/bash
# developer tool: the repository's pinned suite with the guard off (expected: 360 passed, 58 failed offline)
cd /repo && env -u PLASTEX_VERIF /venv/bin/python -m pytest -q -p no:cacheprovider --timeout=900 --continue-on-collection-errors 2>&1 | tail -1
