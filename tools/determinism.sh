#!/bin/bash
# developer tool: the generated inputs of every check must depend on VERIF_SEED only — compare the case digest under two
# interpreter hash seeds (extra_checks generators are covered by their own seeded RNGs and are compared by their statistics)
cd "$(dirname "$0")/.."
for p in ${@:-$(python3 -c "import json; print(' '.join(c['property_id'] for c in json.load(open('MANIFEST.json'))['checks']))")}; do
  a=$(PYTHONHASHSEED=11 ./check $p 2>&1 | grep -E "generated .* cases, digest|VIOLATION" | sed 's/^\[[^]]*\] //' | tr '\n' ' ')
  b=$(PYTHONHASHSEED=77 ./check $p 2>&1 | grep -E "generated .* cases, digest|VIOLATION" | sed 's/^\[[^]]*\] //' | tr '\n' ' ')
  if [ "$a" == "$b" ]; then echo "$p same: $a"; else echo "$p DIFFERENT: [$a] vs [$b]"; fi
done
