#!/usr/bin/env python3
"""prints the markdown table of /verif/seeded/*/meta.json for DESIGN.md section 12 (developer tool)"""
import os, json, glob
V = os.path.dirname(os.path.dirname(os.path.abspath(__file__)))
print('| seeded change | property | what it does | needs | result of the check |')
print('|---|---|---|---|---|')
for d in sorted(glob.glob(os.path.join(V, 'seeded', '*'))):
    m = json.load(open(os.path.join(d, 'meta.json')))
    esc = lambda x: str(x).replace('|', '\\|').replace('\n', ' ')
    print('| `seeded/%s` | %s | %s | %s | %s |' % (os.path.basename(d), m.get('property'), esc(m.get('summary', ''))[:260], esc(m.get('needs', ''))[:200], esc(m.get('check_result', ''))))
