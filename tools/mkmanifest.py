#!/usr/bin/env python3
"""Regenerates /verif/MANIFEST.json from the property modules in harness/props (developer tool, not a check)."""
import os, sys, json, importlib
VERIF = os.path.dirname(os.path.dirname(os.path.abspath(__file__)))
sys.path.insert(0, os.path.join(VERIF, 'harness'))
ids = [json.loads(l)['id'] for l in open(os.path.join(VERIF, 'properties.jsonl'))]
checks, na = [], []
for pid in ids:
    p = os.path.join(VERIF, 'harness', 'props', pid.lower() + '.py')
    if not os.path.exists(p):
        na.append({'property_id': pid, 'reason': 'not built yet in this round: no check is registered until its Lean model, theorems and correspondence harness exist (design in DESIGN.md section 6)'})
        continue
    src = open(p).read()
    ns = {}
    # read the metadata constants without importing plasTeX
    import ast
    for node in ast.parse(src).body:
        if isinstance(node, ast.Assign) and len(node.targets) == 1 and isinstance(node.targets[0], ast.Name):
            if node.targets[0].id in ('LEVEL_TEXT', 'LEVEL_NOTE', 'TECHNIQUE', 'DESIGN_REF'):
                ns[node.targets[0].id] = ast.literal_eval(node.value)
    checks.append({
        'property_id': pid,
        'quick_cmd': './check %s --tier quick' % pid,
        'thorough_cmd': './check %s --tier thorough' % pid,
        'evidence_file': 'evidence/%s.json' % pid,
        'replay_cmd_template': './check %s --replay {path}' % pid,
        'engine': 'lean4-proof+correspondence',
        'level_claimed': {'category': 'proof', 'text': ns['LEVEL_TEXT'], 'design_ref': ns.get('DESIGN_REF', 'DESIGN.md section 6 ' + pid)},
        'level_note': ns['LEVEL_NOTE'],
        'technique': ns['TECHNIQUE'],
    })
m = {
    'version': 1,
    'setup_cmd': 'cd lean && lake build PlasVerif driver',
    'hooks': {'guard': 'PLASTEX_VERIF',
              'enable': 'no source hooks are needed: the harness imports plasTeX from /repo\'s working tree and observes it through its public API (PLASTEX_VERIF=1 is exported by ./check but nothing in /repo reads it)',
              'baseline_off_cmd': 'cd /repo && /venv/bin/python -m pytest -ra -q -p no:cacheprovider --timeout=900 --continue-on-collection-errors',
              'source_commits': [], 'add_only': True},
    'engines': [{'name': 'lean4-proof+correspondence', 'path': 'lean/ (theorems, models, driver) + harness/ (translator, differential correspondence, failing-input search)',
                 'serves_properties': [c['property_id'] for c in checks],
                 'kind_free_text': 'Lean 4 theorems over hand-written executable models; tables regenerated from /repo on every run; models tied to the code by a seeded differential line-protocol check against the compiled Lean driver'}],
    'checks': checks,
    'notes': 'See DESIGN.md. known_findings.txt lists recorded/fixed genuine defects. Exit 2 = harness failure (no verdict).',
    'not_applicable': na,
}
json.dump(m, open(os.path.join(VERIF, 'MANIFEST.json'), 'w'), indent=1)
print('checks:', [c['property_id'] for c in checks], 'not yet:', [n['property_id'] for n in na])
