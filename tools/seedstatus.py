#!/usr/bin/env python3
"""record in every seeded/<id>/meta.json the newest commit of /repo's history at which patch.diff applies
(`applies_at`: 'HEAD' or a commit of the history; later fix: commits may have rewritten the lines a seeded change touches)"""
import json, os, subprocess, glob, sys
repo = os.environ.get('VERIF_REPO', '/repo')
commits = subprocess.run(['git', '-C', repo, 'log', '--format=%h'], capture_output=True, text=True).stdout.split()
wt = '/tmp/seedstatus_wt'
def applies(p):
    return subprocess.run(['git', '-C', wt, 'apply', '--check', p], capture_output=True).returncode == 0
for d in sorted(glob.glob(os.path.join(os.path.dirname(__file__), '..', 'seeded', '*'))):
    p = os.path.abspath(os.path.join(d, 'patch.diff'))
    m = json.load(open(os.path.join(d, 'meta.json')))
    if subprocess.run(['git', '-C', repo, 'apply', '--check', p], capture_output=True).returncode == 0:
        new = 'HEAD'
    else:
        new = None
        subprocess.run(['git', '-C', repo, 'worktree', 'add', '-q', '--detach', wt, 'HEAD'], check=True)
        try:
            for c in commits[1:]:
                subprocess.run(['git', '-C', wt, 'checkout', '-q', c], check=True)
                if applies(p):
                    new = c; break
        finally:
            subprocess.run(['git', '-C', repo, 'worktree', 'remove', '--force', wt])
        new = new or 'none'
        print(os.path.basename(d), 'applies at', new)
    if m.get('applies_at') != new:
        m['applies_at'] = new
        json.dump(m, open(os.path.join(d, 'meta.json'), 'w'), indent=1)
